"""./check --selftest : reference vectors, import of the tree under test, transport conformance."""

from __future__ import annotations

import json
import sys


def main(argv) -> int:
    from ref import crc, wire4, wire5

    errs = []
    if crc.crc16(b"123456789") != 0x4B37:
        errs.append("crc16 check value for '123456789' is not 0x4B37")
    errs += wire4.selftest()
    errs += wire5.selftest()
    try:
        from harness import conformance

        errs += conformance.run()
    except Exception as exc:  # noqa: BLE001
        errs.append(f"transport conformance crashed: {exc!r}")
    try:
        from harness.world import World

        for gen in (4, 5):
            w = World({"gen": gen, "mode": "api", "timeline": [{"at": 0.0, "op": "user.init"}, {"at": 6.0, "op": "user.shutdown"}], "end": 8.0}).run()
            init = w.calls[0]
            if init["result"] is not True:
                errs.append(f"gen {gen}: plain init() against the reference console returned {init['result']!r} / {init['exc']!r}")
    except Exception as exc:  # noqa: BLE001
        errs.append(f"smoke run crashed: {exc!r}")
    errs += _ordered_set_conformance()
    for e in errs:
        print("SELFTEST-FAIL:", e)
    print(json.dumps({"selftest": "ok" if not errs else "failed", "failures": len(errs)}))
    return 0 if not errs else 2


def _ordered_set_conformance() -> list[str]:
    """The ordered stand-in for `set` (sim/seams.py) against the real thing: random operation sequences, aliasing through
    in-place operators, and the error on a size change during iteration (two fidelity defects were found here by seeded
    changes: snapshot iteration, missing in-place operators)."""
    import random

    from sim.seams import OrderedSet

    errs = []
    rng = random.Random(7)
    for trial in range(300):
        a, b = set(), OrderedSet()
        alias_a, alias_b = a, b
        for _ in range(30):
            op = rng.choice(["add", "discard", "ior", "isub", "iand", "or", "sub", "and", "update", "clear", "copy_eq", "len", "in", "union"])
            x = rng.randrange(8)
            other = {rng.randrange(8) for _ in range(rng.randrange(4))}
            if op == "add":
                a.add(x); b.add(x)
            elif op == "discard":
                a.discard(x); b.discard(x)
            elif op == "ior":
                a |= other; b |= other
            elif op == "isub":
                a -= other; b -= other
            elif op == "iand" and rng.random() < 0.3:
                a &= other; b &= other
            elif op == "update":
                a.update(other); b.update(other)
            elif op == "clear" and rng.random() < 0.2:
                a.clear(); b.clear()
            elif op == "or" and set(a | other) != set(b | other):
                errs.append("OrderedSet: | differs")
            elif op == "sub" and set(a - other) != set(b - other):
                errs.append("OrderedSet: - differs")
            elif op == "and" and set(a & other) != set(b & other):
                errs.append("OrderedSet: & differs")
            elif op == "union" and set(a.union(other, {9})) != set(b.union(other, {9})):
                errs.append("OrderedSet: union differs")
            elif op == "copy_eq" and not (b.copy() == a and len(b.copy()) == len(a)):
                errs.append("OrderedSet: copy / == differs")
            elif op == "in" and (x in a) != (x in b):
                errs.append("OrderedSet: membership differs")
            if set(a) != set(b) or len(a) != len(b) or bool(a) != bool(b):
                errs.append(f"OrderedSet: content differs after {op}")
                break
            if alias_a is not a or alias_b is not b:
                errs.append(f"OrderedSet: {op} re-bound the name instead of mutating in place")
                break
        if errs:
            break
    for cls in (set, OrderedSet):
        s0 = cls([1, 2, 3])
        try:
            for x in s0:
                s0.discard(2 if x != 2 else 3)
            errs.append(f"{cls.__name__}: no RuntimeError on a size change during iteration")
        except RuntimeError:
            pass
    return errs[:3]


if __name__ == "__main__":
    sys.exit(main(sys.argv[1:]))
