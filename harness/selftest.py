"""./check --selftest : reference vectors, import of the tree under test, transport conformance."""

from __future__ import annotations

import json
import sys


def main(argv) -> int:
    from ref import crc, wire4, wire5

    errs = []
    if crc.crc16(b"123456789") != 0x4B37:
        errs.append("crc16 check value for '123456789' is not 0x4B37")
    errs += wire4.selftest()
    errs += wire5.selftest()
    try:
        from harness import conformance

        errs += conformance.run()
    except Exception as exc:  # noqa: BLE001
        errs.append(f"transport conformance crashed: {exc!r}")
    try:
        from harness.world import World

        for gen in (4, 5):
            w = World({"gen": gen, "mode": "api", "timeline": [{"at": 0.0, "op": "user.init"}, {"at": 6.0, "op": "user.shutdown"}], "end": 8.0}).run()
            init = w.calls[0]
            if init["result"] is not True:
                errs.append(f"gen {gen}: plain init() against the reference console returned {init['result']!r} / {init['exc']!r}")
    except Exception as exc:  # noqa: BLE001
        errs.append(f"smoke run crashed: {exc!r}")
    for e in errs:
        print("SELFTEST-FAIL:", e)
    print(json.dumps({"selftest": "ok" if not errs else "failed", "failures": len(errs)}))
    return 0 if not errs else 2


if __name__ == "__main__":
    sys.exit(main(sys.argv[1:]))
