"""Adapter between pyairtouch objects and the plain dict readings of /verif/ref.

Uses public names only: the API Protocol members exported by pyairtouch, and
the dataclass field names of the message classes (where a check observes
subscribe_on_message_received or submits messages to AirTouchSocket.send).
A missing name raises AdapterError -> exit 2 (HARNESS-ERROR), never a VIOLATION.
"""

from __future__ import annotations

import datetime
import importlib


class AdapterError(Exception):
    pass


def _mod(name: str):
    try:
        return importlib.import_module(name)
    except Exception as exc:  # noqa: BLE001
        raise AdapterError(f"cannot import {name}: {exc!r}") from exc


def _get(obj, name: str):
    try:
        return getattr(obj, name)
    except AttributeError as exc:
        raise AdapterError(f"{type(obj).__name__} has no attribute {name!r}") from exc


_ENUM_RENAME = {
    "OFF_AWAY": "away_off",
    "ON_AWAY": "away_on",
    "TURN_OFF": "off",
    "TURN_ON": "on",
    "UNCHANGED": "keep",
    "SET_TO_AWAY": "away",
    "SET_TO_SLEEP": "sleep",
    "INTELLIGENT_AUTO": "intelligent_auto",
}


def en(e) -> str:
    """Enum member -> the reference's lower-case word."""
    n = e.name
    if n in _ENUM_RENAME:
        return _ENUM_RENAME[n]
    if n.startswith("INTELLIGENT_AUTO_"):
        return "ia_" + n[len("INTELLIGENT_AUTO_"):].lower()
    return n.lower()


def _timer(t):
    return {"disabled": _get(t, "disabled"), "hour": _get(t, "hour"), "minute": _get(t, "minute")}


# ------------------------------------------------------------------ message -> reading
def reading_of(gen: int, header, message) -> dict:
    """Plain reading of a decoded pyairtouch message, shaped like ref.wireN.read()."""
    comms = _mod("pyairtouch.comms")
    cls = type(message).__name__
    if isinstance(message, comms.UnsupportedMessage):
        return {"kind": "unknown", "type": message.unsupported_id, "payload": bytes(message.raw_data)}
    if cls == "ExtendedMessage":
        sub = _get(message, "sub_message")
        if isinstance(sub, comms.UnsupportedMessage):
            return {"kind": "ext_unknown", "sub": sub.unsupported_id, "payload": bytes(sub.raw_data)}
        return _ext_reading(gen, sub)
    if cls == "ControlStatusMessage":
        sub = _get(message, "sub_message")
        if isinstance(sub, comms.UnsupportedMessage):
            return {"kind": "cs_unknown", "sub": sub.unsupported_id, "payload": bytes(sub.raw_data)}
        return _plain_reading(gen, sub)
    return _plain_reading(gen, message)


def _ext_reading(gen: int, m) -> dict:
    cls = type(m).__name__
    if cls == "ConsoleVersionRequest":
        return {"kind": "version_request"}
    if cls == "ConsoleVersionMessage":
        return {"kind": "version", "update": _get(m, "update_available"), "versions": list(_get(m, "versions"))}
    if cls == "AcAbilityRequest":
        n = _get(m, "ac_number")
        return {"kind": "ability_request", "ac": "all" if n == "ALL" else n}
    if cls == "AcAbilityMessage":
        acs = []
        for a in _get(m, "ac_abilities"):
            modes = [en(k) for k, v in _get(a, "ac_mode_support").items() if v and en(k) != "keep"]
            fans = [en(k) for k, v in _get(a, "fan_speed_support").items() if v and en(k) != "keep"]
            rec = {"ac": a.ac_number, "name": a.ac_name, "modes": modes, "fans": fans}
            if gen == 4:
                g = _get(a, "groups")
                rec.update(start_group=a.start_group, group_count=a.group_count, min_sp=a.min_set_point,
                           max_sp=a.max_set_point, groups=None if g is None else sorted(g))
            else:
                rec.update(start_zone=a.start_zone, zone_count=a.zone_count, min_cool=a.min_cool_set_point,
                           max_cool=a.max_cool_set_point, min_heat=a.min_heat_set_point, max_heat=a.max_heat_set_point)
            acs.append(rec)
        return {"kind": "ability", "acs": acs}
    if cls == "GroupNamesRequest":
        n = _get(m, "group_number")
        return {"kind": "names_request", "group": "all" if n == "ALL" else n}
    if cls == "ZoneNamesRequest":
        n = _get(m, "zone_number")
        return {"kind": "names_request", "zone": "all" if n == "ALL" else n}
    if cls == "GroupNamesMessage":
        return {"kind": "names", "names": dict(_get(m, "group_names"))}
    if cls == "ZoneNamesMessage":
        return {"kind": "names", "names": dict(_get(m, "zone_names"))}
    if cls == "AcErrorInformationRequest":
        return {"kind": "error_info_request", "ac": _get(m, "ac_number")}
    if cls == "AcErrorInformationMessage":
        return {"kind": "error_info", "ac": _get(m, "ac_number"), "text": _get(m, "error_info")}
    if cls == "QuickTimerMessage":
        d = _get(m, "duration")
        total_min = int(d.total_seconds() // 60)
        return {"kind": "quick_timer", "ac": m.ac_number, "type": en(m.timer_type).replace("_timer", ""),
                "hours": total_min // 60, "minutes": total_min % 60}
    raise AdapterError(f"unknown extended sub-message class {cls}")


def _plain_reading(gen: int, m) -> dict:
    cls = type(m).__name__
    if cls in ("GroupStatusRequest",):
        return {"kind": "group_status_request"}
    if cls == "ZoneStatusRequest":
        return {"kind": "zone_status_request"}
    if cls == "AcStatusRequest":
        return {"kind": "ac_status_request"}
    if cls == "AcTimerStatusRequest":
        return {"kind": "timer_status_request"}
    if cls == "GroupStatusMessage":
        return {"kind": "group_status", "groups": [
            {"group": g.group_number, "power": en(g.power_state), "method": en(g.control_method),
             "percent": g.damper_percentage, "battery_low": en(g.battery_status) == "low",
             "turbo_support": g.supports_turbo, "setpoint": g.set_point, "sensor": g.has_sensor,
             "temp": g.temperature, "spill": g.spill_active} for g in _get(m, "groups")]}
    if cls == "ZoneStatusMessage":
        return {"kind": "zone_status", "zones": [
            {"zone": z.zone_number, "power": en(z.power_state), "method": en(z.control_method),
             "percent": z.damper_percentage, "setpoint": z.set_point, "sensor": z.has_sensor,
             "temp": z.temperature, "spill": z.spill_active, "battery_low": en(z.battery_status) == "low"}
            for z in _get(m, "zones")]}
    if cls == "AcStatusMessage":
        out = []
        for a in _get(m, "ac_status"):
            rec = {"ac": a.ac_number, "power": en(a.power_state), "mode": en(a.mode), "fan": en(a.fan_speed),
                   "spill": a.spill_active, "timer": a.timer_set, "setpoint": a.set_point,
                   "temp": a.temperature, "error": a.error_code}
            if gen == 5:
                rec.update(turbo=a.turbo_active, bypass=a.bypass_active)
            out.append(rec)
        return {"kind": "ac_status", "acs": out}
    if cls in ("AcTimerStatusMessage", "AcTimerControlMessage"):
        kind = "timer_status" if cls == "AcTimerStatusMessage" else "timer_control"
        return {"kind": kind, "timers": [
            {"ac": t.ac_number, "on": _timer(t.on_timer), "off": _timer(t.off_timer)} for t in _get(m, "ac_timer_status")]}
    if cls == "GroupControlMessage":
        s = _get(m, "setting")
        setting, value = "keep", None
        if s is not None:
            sc = type(s).__name__
            if sc == "GroupIncreaseDecrease":
                setting = {"INCREASE": "inc", "DECREASE": "dec"}[s.name]
            elif sc == "GroupDamperControl":
                setting, value = "percent", s.open_percentage
            elif sc == "GroupSetPointControl":
                setting, value = "setpoint", s.set_point
        return {"kind": "group_control", "group": m.group_number, "setting": setting,
                "method": en(m.control_method), "power": {"toggle": "next"}.get(en(m.power), en(m.power)), "value": value}
    if cls == "AcControlMessage" and gen == 4:
        s = _get(m, "set_point_control")
        sp_type, sp_value = "keep", None
        if s is not None:
            if type(s).__name__ == "AcIncreaseDecrease":
                sp_type = {"INCREASE": "inc", "DECREASE": "dec"}[s.name]
            else:
                sp_type, sp_value = "set", s.set_point
        return {"kind": "ac_control", "ac": m.ac_number, "power": en(m.power), "mode": en(m.mode),
                "fan": en(m.fan_speed), "sp_type": sp_type, "sp_value": sp_value}
    if cls == "AcControlMessage":
        return {"kind": "ac_control", "acs": [
            {"ac": c.ac_number, "power": en(c.power), "mode": en(c.mode), "fan": en(c.fan_speed),
             "sp_ctrl": "keep" if c.set_point is None else "set", "setpoint": c.set_point}
            for c in _get(m, "ac_control")]}
    if cls == "ZoneControlMessage":
        out = []
        for c in _get(m, "zone_control"):
            s = c.zone_setting
            setting, value = "keep", None
            if s is not None:
                sc = type(s).__name__
                if sc == "ZoneIncreaseDecrease":
                    setting = {"INCREASE": "inc", "DECREASE": "dec"}[s.name]
                elif sc == "ZoneDamperControl":
                    setting, value = "percent", s.open_percentage
                elif sc == "ZoneSetPointControl":
                    setting, value = "setpoint", s.set_point
            p = en(c.zone_power)
            out.append({"zone": c.zone_number, "setting": setting, "power": {"toggle": "next"}.get(p, p), "value": value})
        return {"kind": "zone_control", "zones": out}
    raise AdapterError(f"unknown message class {cls}")


# ------------------------------------------------------------------ descriptor -> message (send workloads)
def policy_of(desc):
    s = _mod("pyairtouch.comms.socket")
    if isinstance(desc, str):
        return {"idem": s.RETRY_IDEMPOTENT, "nonidem": s.RETRY_NON_IDEMPOTENT, "connected": s.RETRY_CONNECTED}[desc]
    return s.RetryPolicy(max_retries=desc["retries"], max_lifetime=desc["lifetime"])


def policy_numbers(desc) -> tuple[int, float]:
    p = policy_of(desc)
    return p.max_retries, p.max_lifetime


def message_from(gen: int, d: dict):
    """Build a pyairtouch message for a socket-level send workload."""
    k = d["kind"]
    if gen == 4:
        ext = _mod("pyairtouch.at4.comms.x1F_ext").ExtendedMessage
        if k == "ac_control":
            m = _mod("pyairtouch.at4.comms.x2C_ac_ctrl")
            spc = None
            if d.get("sp_type") == "set":
                spc = m.AcSetPointValue(d["sp_value"])
            elif d.get("sp_type") in ("inc", "dec"):
                spc = m.AcIncreaseDecrease[{"inc": "INCREASE", "dec": "DECREASE"}[d["sp_type"]]]
            return m.AcControlMessage(
                ac_number=d["ac"], power=_member(m.AcPowerControl, d.get("power", "keep")),
                mode=_member(m.AcModeControl, d.get("mode", "keep")),
                fan_speed=_member(m.AcFanSpeedControl, d.get("fan", "keep")), set_point_control=spc)
        if k == "group_control":
            m = _mod("pyairtouch.at4.comms.x2A_group_ctrl")
            setting = None
            if d.get("setting") == "percent":
                setting = m.GroupDamperControl(d["value"])
            elif d.get("setting") == "setpoint":
                setting = m.GroupSetPointControl(d["value"])
            elif d.get("setting") in ("inc", "dec"):
                setting = m.GroupIncreaseDecrease[{"inc": "INCREASE", "dec": "DECREASE"}[d["setting"]]]
            return m.GroupControlMessage(
                group_number=d["group"], power=_member(m.GroupPowerControl, d.get("power", "keep")),
                control_method=_member(m.GroupControlMethod, d.get("method", "keep")), setting=setting)
        if k == "ac_status_request":
            return _mod("pyairtouch.at4.comms.x2D_ac_status").AcStatusRequest()
        if k == "group_status_request":
            return _mod("pyairtouch.at4.comms.x2B_group_status").GroupStatusRequest()
        if k == "timer_status_request":
            return _mod("pyairtouch.at4.comms.x37_ac_timer_status").AcTimerStatusRequest()
        if k == "version_request":
            return ext(_mod("pyairtouch.at4.comms.x1FFF30_console_ver").ConsoleVersionRequest())
        if k == "error_info_request":
            return ext(_mod("pyairtouch.at4.comms.x1FFF10_err_info").AcErrorInformationRequest(ac_number=d["ac"]))
        if k == "ability_request":
            return ext(_mod("pyairtouch.at4.comms.x1FFF11_ac_ability").AcAbilityRequest(ac_number="ALL" if d["ac"] == "all" else d["ac"]))
        if k == "names_request":
            return ext(_mod("pyairtouch.at4.comms.x1FFF12_group_names").GroupNamesRequest(group_number="ALL" if d["group"] == "all" else d["group"]))
        if k == "quick_timer":
            m = _mod("pyairtouch.at4.comms.x1FFF20_quick_timer")
            return ext(m.QuickTimerMessage(ac_number=d["ac"], timer_type=m.TimerType[d["type"].upper() + "_TIMER"],
                                           duration=datetime.timedelta(hours=d["hours"], minutes=d["minutes"])))
        if k == "timer_control":
            m = _mod("pyairtouch.at4.comms.x36_ac_timer_ctrl")
            return m.AcTimerControlMessage(ac_timer_status=[
                m.AcTimerControlData(ac_number=t["ac"], on_timer=m.AcTimerState(**t["on"]), off_timer=m.AcTimerState(**t["off"]))
                for t in d["timers"]])
    else:
        ext = _mod("pyairtouch.at5.comms.x1F_ext").ExtendedMessage
        cs = _mod("pyairtouch.at5.comms.xC0_ctrl_status").ControlStatusMessage
        if k == "ac_control":
            m = _mod("pyairtouch.at5.comms.xC022_ac_ctrl")
            return cs(m.AcControlMessage([
                m.AcControlData(ac_number=c["ac"], power=_member(m.AcPowerControl, c.get("power", "keep")),
                                mode=_member(m.AcModeControl, c.get("mode", "keep")),
                                fan_speed=_member(m.AcFanSpeedControl, c.get("fan", "keep")),
                                set_point=c.get("setpoint")) for c in d["acs"]]))
        if k == "zone_control":
            m = _mod("pyairtouch.at5.comms.xC020_zone_ctrl")
            recs = []
            for c in d["zones"]:
                setting = None
                if c.get("setting") == "percent":
                    setting = m.ZoneDamperControl(c["value"])
                elif c.get("setting") == "setpoint":
                    setting = m.ZoneSetPointControl(c["value"])
                elif c.get("setting") in ("inc", "dec"):
                    setting = m.ZoneIncreaseDecrease[{"inc": "INCREASE", "dec": "DECREASE"}[c["setting"]]]
                recs.append(m.ZoneControlData(zone_number=c["zone"], zone_power=_member(m.ZonePowerControl, c.get("power", "keep")),
                                              zone_setting=setting))
            return cs(m.ZoneControlMessage(recs))
        if k == "ac_status_request":
            return cs(_mod("pyairtouch.at5.comms.xC023_ac_status").AcStatusRequest())
        if k == "zone_status_request":
            return cs(_mod("pyairtouch.at5.comms.xC021_zone_status").ZoneStatusRequest())
        if k == "timer_status_request":
            return cs(_mod("pyairtouch.at5.comms.xC033_ac_timer_status").AcTimerStatusRequest())
        if k == "version_request":
            return ext(_mod("pyairtouch.at5.comms.x1FFF30_console_ver").ConsoleVersionRequest())
        if k == "error_info_request":
            return ext(_mod("pyairtouch.at5.comms.x1FFF10_err_info").AcErrorInformationRequest(ac_number=d["ac"]))
        if k == "ability_request":
            return ext(_mod("pyairtouch.at5.comms.x1FFF11_ac_ability").AcAbilityRequest(ac_number="ALL" if d["ac"] == "all" else d["ac"]))
        if k == "names_request":
            return ext(_mod("pyairtouch.at5.comms.x1FFF13_zone_names").ZoneNamesRequest(zone_number="ALL" if d["zone"] == "all" else d["zone"]))
        if k == "quick_timer":
            m = _mod("pyairtouch.at5.comms.x1FFF49_quick_timer")
            return ext(m.QuickTimerMessage(ac_number=d["ac"], timer_type=m.TimerType[d["type"].upper() + "_TIMER"],
                                           duration=datetime.timedelta(hours=d["hours"], minutes=d["minutes"])))
        if k == "timer_control":
            m = _mod("pyairtouch.at5.comms.xC032_ac_timer_ctrl")
            return cs(m.AcTimerControlMessage(ac_timer_status=[
                m.AcTimerControlData(ac_number=t["ac"], on_timer=m.AcTimerState(**t["on"]), off_timer=m.AcTimerState(**t["off"]))
                for t in d["timers"]]))
    raise AdapterError(f"cannot build a gen-{gen} message for {d!r}")


_MEMBER_NAMES = {
    "keep": "UNCHANGED", "off": "TURN_OFF", "on": "TURN_ON", "toggle": "TOGGLE", "next": "TOGGLE",
    "away": "SET_TO_AWAY", "sleep": "SET_TO_SLEEP", "intelligent_auto": "INTELLIGENT_AUTO",
}


def _member(enum_cls, word: str):
    name = _MEMBER_NAMES.get(word, word.upper())
    try:
        return enum_cls[name]
    except KeyError as exc:
        raise AdapterError(f"{enum_cls.__name__} has no member {name}") from exc


# ------------------------------------------------------------------ public API snapshot
def api_enum(name: str, member: str):
    pa = _mod("pyairtouch")
    return _get(pa, name)[member]


def snapshot(at) -> dict:
    """Every public getter of the AirTouch, its ACs and their zones as plain values.

    A getter that raises is recorded as {"!raise": "<ExcType>"}; the oracles
    treat that as a violation of C10, not as a harness error.
    """
    pa = _mod("pyairtouch")

    def g(obj, name):
        try:
            v = getattr(obj, name)
        except AttributeError as exc:
            raise AdapterError(f"{type(obj).__name__} has no attribute {name!r}") from exc
        except Exception as exc:  # noqa: BLE001
            return {"!raise": type(exc).__name__}
        return _plain(v)

    def call(obj, name, *a):
        try:
            v = getattr(obj, name)(*a)
        except AttributeError as exc:
            raise AdapterError(f"{type(obj).__name__} has no attribute {name!r}") from exc
        except Exception as exc:  # noqa: BLE001
            return {"!raise": type(exc).__name__}
        return _plain(v)

    out = {k: g(at, k) for k in ("initialised", "airtouch_id", "serial", "name", "host", "model",
                                  "update_available", "console_versions")}
    acs = {}
    zones_seen = {}
    for ac in at.air_conditioners:
        a = {k: g(ac, k) for k in (
            "ac_id", "name", "supported_power_controls", "supported_modes", "supported_fan_speeds",
            "power_state", "selected_mode", "active_mode", "selected_fan_speed", "active_fan_speed",
            "current_temperature", "target_temperature", "target_temperature_resolution",
            "min_target_temperature", "max_target_temperature", "spill_state", "error_info")}
        a["on_timer"] = call(ac, "next_quick_timer", pa.AcTimerType.ON_TIMER)
        a["off_timer"] = call(ac, "next_quick_timer", pa.AcTimerType.OFF_TIMER)
        zs = []
        for z in ac.zones:
            zd = {k: g(z, k) for k in (
                "zone_id", "name", "supported_power_states", "power_state", "control_method",
                "has_temp_sensor", "sensor_battery_status", "current_temperature", "target_temperature",
                "target_temperature_resolution", "current_damper_percentage", "spill_active")}
            zs.append(zd["zone_id"])
            zones_seen[zd["zone_id"]] = zd
        a["zones"] = zs
        acs[a["ac_id"]] = a
    out["acs"] = acs
    out["zones"] = zones_seen
    return out


def _plain(v):
    import enum

    if isinstance(v, enum.Enum):
        return v.name
    if isinstance(v, (list, tuple)):
        return [_plain(x) for x in v]
    if isinstance(v, datetime.time):
        return [v.hour, v.minute]
    if type(v).__name__ == "AcErrorInfo":
        return {"code": v.code, "description": v.description}
    return v


# -- record order (C03): the same message with its records listed in another order ------------------------------
def _record_field(msg):
    """(owner, field name, records) of the first list / tuple / dict of >= 2 records found in msg or its sub-message."""
    import dataclasses

    seen = 0
    cur = msg
    while cur is not None and dataclasses.is_dataclass(cur) and seen < 3:
        nxt = None
        for f in dataclasses.fields(cur):
            v = getattr(cur, f.name)
            if isinstance(v, (list, tuple)) and len(v) >= 2 and all(dataclasses.is_dataclass(x) for x in v):
                return cur, f.name, v  # numbered records; a list of plain values (version strings) is ordered data
            if isinstance(v, dict) and len(v) >= 2:
                return cur, f.name, v
            if f.name == "sub_message":
                nxt = v
        cur = nxt
        seen += 1
    return None


def permute_records(msg, rng):
    """A copy of msg whose records are listed in a drawn order (None when msg has fewer than two records)."""
    import copy

    hit = _record_field(msg)
    if hit is None:
        return None
    owner, name, recs = hit
    if isinstance(recs, dict):
        keys = list(recs)
        rng.shuffle(keys)
        new = {k: recs[k] for k in keys}
    else:
        new = list(recs)
        rng.shuffle(new)
        if list(new) == list(recs):
            new.reverse()
        new = type(recs)(new) if isinstance(recs, tuple) else new
    out = copy.deepcopy(msg)
    cur = out
    while cur is not None:
        if hasattr(cur, name) and (isinstance(getattr(cur, name), (list, tuple, dict))) and len(getattr(cur, name)) == len(recs):
            object.__setattr__(cur, name, new)
            return out
        cur = getattr(cur, "sub_message", None)
    return None


def records_multiset(msg):
    hit = _record_field(msg)
    if hit is None:
        return None
    recs = hit[2]
    if isinstance(recs, dict):
        return sorted(repr(x) for x in recs.items())
    return sorted(repr(x) for x in recs)
