"""SimTransport vs. the real selector transport: same script, same protocol callbacks.

Runs a scripted sequence against a real loop-back TCP pair (127.0.0.1) and
against sim.net.SimTransport and compares the sequence of protocol callbacks
and the results of StreamWriter.drain() / wait_closed().  If loop-back TCP is not
usable the comparison is reported as skipped (no check depends on real sockets).
"""

from __future__ import annotations

import asyncio
import socket
import struct

from sim.loop import SimLoop
from sim.net import SimNet
from sim.trace import Trace

SCRIPTS = ["fin_then_close", "rst", "close_then_write", "abort", "write_after_peer_fin"]


async def _client_script(name: str, reader, writer, log, srv_ctl) -> None:
    tr = writer.transport
    writer.write(b"abc")
    await writer.drain()
    await srv_ctl("expect", 3)
    await srv_ctl("send", b"xyz")
    data = await reader.readexactly(3)
    log.append(("read", data))
    if name == "fin_then_close":
        await srv_ctl("fin")
        try:
            await reader.readexactly(1)
        except asyncio.IncompleteReadError:
            log.append(("eof", tr.is_closing()))
        writer.close()
        log.append(("closing", tr.is_closing()))
        await writer.wait_closed()
        log.append(("closed",))
    elif name == "write_after_peer_fin":
        await srv_ctl("fin")
        try:
            await reader.readexactly(1)
        except asyncio.IncompleteReadError:
            log.append(("eof", tr.is_closing()))
        writer.write(b"after")
        await writer.drain()
        log.append(("drain_ok_after_fin",))
        writer.close()
        await writer.wait_closed()
        log.append(("closed",))
    elif name == "rst":
        await srv_ctl("rst")
        try:
            await reader.readexactly(1)
            log.append(("read_ok",))
        except asyncio.IncompleteReadError:
            log.append(("eof",))
        except OSError as exc:
            log.append(("read_oserror", type(exc).__name__))
        log.append(("closing", tr.is_closing()))
        writer.write(b"zz")
        try:
            await writer.drain()
            log.append(("drain_ok",))
        except OSError as exc:
            log.append(("drain_oserror", type(exc).__name__))
        writer.close()
        try:
            await writer.wait_closed()
            log.append(("closed",))
        except OSError as exc:
            log.append(("wait_closed_oserror", type(exc).__name__))
    elif name == "close_then_write":
        writer.close()
        writer.write(b"late")
        try:
            await writer.drain()
            log.append(("drain_ok",))
        except OSError as exc:
            log.append(("drain_oserror", type(exc).__name__))
        await writer.wait_closed()
        log.append(("closed",))
    elif name == "abort":
        tr.abort()
        log.append(("closing", tr.is_closing()))
        try:
            await writer.drain()
            log.append(("drain_ok",))
        except OSError as exc:
            log.append(("drain_oserror", type(exc).__name__))
        await writer.wait_closed()
        log.append(("closed",))


def _real(name: str):
    log = []

    async def main():
        conns = {}
        got = asyncio.Event()

        def factory():
            return _SrvProto(conns, got)

        loop = asyncio.get_running_loop()
        server = await loop.create_server(factory, "127.0.0.1", 0)
        port = server.sockets[0].getsockname()[1]
        reader, writer = await asyncio.open_connection("127.0.0.1", port)

        async def ctl(cmd, arg=None):
            while "p" not in conns:
                await asyncio.sleep(0.005)
            p = conns["p"]
            if cmd == "expect":
                while len(p.rx) < arg:
                    await asyncio.sleep(0.005)
            elif cmd == "send":
                p.tr.write(arg)
            elif cmd == "fin":
                p.tr.write_eof()
            elif cmd == "rst":
                sock = p.tr.get_extra_info("socket")
                sock.setsockopt(socket.SOL_SOCKET, socket.SO_LINGER, struct.pack("ii", 1, 0))
                p.tr.abort()
            await asyncio.sleep(0.02)

        await asyncio.wait_for(_client_script(name, reader, writer, log, ctl), 5)
        if "p" in conns:
            conns["p"].tr.abort()
        server.close()
        await asyncio.sleep(0.01)

    asyncio.run(main())
    return log


class _SrvProto(asyncio.Protocol):
    def __init__(self, conns, got) -> None:
        self.conns = conns
        self.rx = bytearray()

    def connection_made(self, tr) -> None:
        self.tr = tr
        self.conns["p"] = self

    def data_received(self, data) -> None:
        self.rx += data

    def eof_received(self):
        return True


class _SimListener:
    def __init__(self) -> None:
        self.link = None

    def on_connect(self, link) -> None:
        self.link = link

    def on_data(self, link, data) -> None:
        pass

    def on_eof(self, link) -> None:
        pass


def _sim(name: str):
    log = []
    loop = SimLoop()
    trace = Trace(loop)
    net = SimNet(loop, trace)
    lst = _SimListener()
    net.listen("h", 1, lst)

    async def main():
        reader, writer = await asyncio.open_connection("h", 1)

        async def ctl(cmd, arg=None):
            link = lst.link
            if cmd == "expect":
                while len(link.rx) < arg:
                    await asyncio.sleep(0.005)
            elif cmd == "send":
                link.send(arg)
            elif cmd == "fin":
                link.fin()
            elif cmd == "rst":
                link.rst()
            await asyncio.sleep(0.02)

        await asyncio.wait_for(_client_script(name, reader, writer, log, ctl), 5)

    asyncio.set_event_loop(None)
    try:
        loop.run_until_complete(main())
    finally:
        loop.close()
    return log


def run() -> list[str]:
    errs = []
    try:
        s = socket.socket()
        s.bind(("127.0.0.1", 0))
        s.close()
    except OSError as exc:
        print(f"transport conformance: skipped (loop-back TCP unusable: {exc})")
        return errs
    for name in SCRIPTS:
        try:
            real = _real(name)
        except Exception as exc:  # noqa: BLE001
            print(f"transport conformance [{name}]: skipped (real run failed: {exc!r})")
            continue
        sim = _sim(name)
        if real != sim:
            errs.append(f"transport conformance [{name}]: real {real} != sim {sim}")
        else:
            print(f"transport conformance [{name}]: ok {sim}")
    return errs
