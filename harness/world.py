"""World: one simulated run = scenario (JSON-able dict) + the code under test.

A scenario is the replay file:

  {"format": 1, "property": "C07", "gen": 4|5, "mode": "api"|"socket"|"discover",
   "installation": {...}, "knobs": {...}, "timeline": [{"at": t, "op": "...", ...}],
   "end": T, "sched_seed": N}

Executing it draws only from random.Random(sched_seed) (tie-breaks, task
orders) - every draw is appended to the event log.  Everything else is fixed by
the scenario, so that delta debugging can drop or simplify steps.
"""

from __future__ import annotations

import asyncio
import datetime
import gc
import random

from ref import console as refconsole
from sim import seams
from sim.loop import SimLoop, SimHarnessError, SimStepCap
from sim.net import Fate, SimNet
from sim.trace import Trace

from . import adapter

HOST = "10.0.0.1"


class Sub:
    """A recording subscriber (async callable)."""

    def __init__(self, world, name: str, raises: bool = False, yields: int = 0, inside=None, replies=None, inside_late: bool = False) -> None:
        self.world = world
        self.name = name
        self.raises = raises
        self.yields = yields
        self.inside = list(inside or [])  # subscribe / unsubscribe steps performed from within the first callback
        self.inside_late = inside_late  # ... after the callback's own awaits instead of right on entry
        self.after = (0, 0.0)  # (loop turns, seconds) spent inside the callback after a reply
        self.replies = list(replies or [])  # message descriptions sent (one per call) from inside the callback, as the API classes do

    async def __call__(self, *args, **kw):
        self.world.trace.add("sub.call", k=self.name, args=tuple(_p(a) for a in args))
        if self.inside and not self.inside_late:
            steps, self.inside = self.inside, []
            for st in steps:
                self.world.op_user_subscribe(dict(st, inside=True))
        try:
            for _ in range(self.yields):
                await asyncio.sleep(0)
            if self.inside and self.inside_late:
                steps, self.inside = self.inside, []
                for st in steps:
                    self.world.op_user_subscribe(dict(st, inside=True))
        except asyncio.CancelledError:
            # a subscriber that was called and then cancelled at an await of its own never got to act on the update
            if not getattr(self.world, "tearing_down", False):
                self.world.trace.add("sub.cancelled", k=self.name)
            raise
        if self.yields:
            self.world.trace.add("sub.done", k=self.name)
        if self.replies:
            d = self.replies.pop(0)
            self.world.trace.add("sub.reply", k=self.name)
            try:
                await self.world.sock.send(adapter.message_from(self.world.gen, d), adapter.policy_of("idem"))
            except asyncio.CancelledError:
                raise
            except adapter.AdapterError:
                raise
            except Exception as exc:  # noqa: BLE001 - recorded, the subscriber swallows it (as a careful application would)
                self.world.trace.add("sub.reply_raised", k=self.name, e=type(exc).__name__)
            # ... and goes on working for a while after its reply (as the API classes do: update state, notify their own
            # subscribers), possibly for longer than a reconnection takes
            for _ in range(self.after[0]):
                await asyncio.sleep(0)
            if self.after[1]:
                await asyncio.sleep(self.after[1])
        if self.raises:
            self.world.trace.count("probe.subscriber_raised")
            raise RuntimeError(f"subscriber {self.name} fails")


def _p(a):
    return a if isinstance(a, (int, str, float, bool, type(None))) else repr(a)


class World:
    def __init__(self, scenario: dict) -> None:
        self.sc = scenario
        self.gen = scenario.get("gen", 4)
        self.mode = scenario.get("mode", "api")
        self.knobs = scenario.get("knobs", {})
        self.rng = random.Random(scenario.get("sched_seed", 0))
        self.loop = SimLoop(max_steps=self.knobs.get("max_steps", 400_000))
        self.trace = Trace(self.loop)
        self.net = SimNet(self.loop, self.trace)
        self.loop.tie = self._tie
        self.port = 9004 if self.gen == 4 else 9005
        inst = scenario.get("installation") or refconsole.default_installation(self.gen)
        self.console = refconsole.Console(self.net, inst, self.trace)
        self.net.listen(HOST, self.port, self.console)
        self.at = None  # API object
        self.sock = None  # AirTouchSocket (socket mode, or the API's socket for probes)
        self.registry = None
        self.subs: dict[str, Sub] = {}
        self.calls: list[dict] = []
        self.user_tasks: list = []
        self.messages: list[dict] = []  # socket-level received messages
        self.snapshots: list[tuple] = []
        self.leaks: list[dict] = []
        self.hooks: dict[str, list] = {}
        self.verdict = "ok"
        self.error = None
        self.fake_socket_module = None
        self.discovered = None
        self.final: dict = {}
        self._configure_net()
        self.loop.on_instant_end = self._instant_end
        self.loop.iter_cost = float(self.knobs.get("iter_cost", 0.0))
        self.instant_hooks: list = []

    # -- configuration -------------------------------------------------------
    def _configure_net(self) -> None:
        k = self.knobs
        self.net.latency = k.get("latency", 2.0**-7)
        self.net.chunk_gap = k.get("chunk_gap", 0.0)
        seg = k.get("seg", {"mode": "whole"})
        mode = seg.get("mode", "whole")
        srng = random.Random(seg.get("seed", 0))
        if mode == "whole":
            self.net.segment = lambda data: [data]
        elif mode == "bytes":
            self.net.segment = lambda data: [data[i : i + 1] for i in range(len(data))]
        else:
            maxc = seg.get("max", 4)

            def segment(data, srng=srng, maxc=maxc):
                n = len(data)
                if n < 2:
                    return [data]
                ncut = srng.randint(0, min(maxc, n - 1))
                cuts = sorted(srng.sample(range(1, n), ncut))
                out, prev = [], 0
                for c in cuts + [n]:
                    out.append(data[prev:c])
                    prev = c
                return out

            self.net.segment = segment
        for f in k.get("fates", []):
            self.net.fates.append(Fate(f["kind"], f.get("latency", 0.0)))
        df = k.get("default_fate")
        if df:
            self.net.default_fate = Fate(df["kind"], df.get("latency", 0.0))

    def _tie(self, n: int) -> int:
        v = self.rng.randrange(n)
        self.trace.add("choice", k="tie", v=v)
        return v

    def _order(self, n: int) -> list[int]:
        perm = list(range(n))
        if self.knobs.get("shuffle_subscribers", True):
            self.rng.shuffle(perm)
        self.trace.add("choice", k="order", v=tuple(perm))
        return perm

    def _instant_end(self, t: float) -> None:
        for fn in self.instant_hooks:
            fn(t)

    # -- run ---------------------------------------------------------------------
    def run(self) -> "World":
        seams.install()
        self.fake_socket_module = seams.begin_run(self._order, self.knobs.get("first_packet_id", 0))
        gc_was = gc.isenabled()
        gc.disable()
        asyncio.set_event_loop(None)
        try:
            try:
                self.loop.run_until_complete(self._main())
            except SimStepCap as exc:
                self.verdict = "stepcap"
                self.error = str(exc)
                self.trace.add("run.stepcap")
            self._collect_final()
        finally:
            self._teardown()
            seams.end_run()
            if gc_was:
                gc.enable()
        return self

    def _teardown(self) -> None:
        import warnings

        self.tearing_down = True

        loop = self.loop
        with warnings.catch_warnings():
            # cancelling what is left at the end of a run leaves never-awaited inner coroutines
            # (e.g. the delayed _connect); leaks are judged by the oracles, not by warnings
            warnings.simplefilter("ignore")
            self._teardown_inner(loop)

    def _teardown_inner(self, loop) -> None:
        try:
            if not loop.is_closed():
                # Cancel whatever is left so that coroutine objects are closed.
                for t in loop.live_tasks():
                    t.cancel()
                loop.max_steps = 10**9
                loop.on_instant_end = None
                loop.tie = None
                for _ in range(50):
                    if not loop._ready:
                        break
                    loop._stopping = False
                    try:
                        loop._run_once()
                    except Exception:  # noqa: BLE001
                        break
                loop._ready.clear()
                loop._scheduled.clear()
                loop._sim_events.clear()
                loop.close()
        except Exception:  # noqa: BLE001
            pass
        self.at = None
        self.sock = None
        gc.collect()

    async def _main(self) -> None:
        loop = self.loop
        self._setup_client()
        end = loop.create_future()
        for step in self.sc.get("timeline", []):
            loop.sim_at(step["at"], self._step, step)
        loop.sim_at(self.sc.get("end", 10.0), lambda: end.done() or end.set_result(None))
        await end
        for fn in self.hooks.get("end", []):
            r = fn(self)
            if asyncio.iscoroutine(r):
                await r

    def _setup_client(self) -> None:
        if self.mode == "api":
            import pyairtouch

            model = pyairtouch.AirTouchModel.AIRTOUCH_4 if self.gen == 4 else pyairtouch.AirTouchModel.AIRTOUCH_5
            self.at = pyairtouch.connect(model, HOST, self.port, airtouch_id="AT-ID", name="Sim", serial="S-1")
            self.sock = getattr(self.at, "_socket", None)
        elif self.mode == "socket":
            import pyairtouch.comms.socket as ps

            if self.gen == 4:
                import pyairtouch.at4.comms.registry as reg
            else:
                import pyairtouch.at5.comms.registry as reg
            self.registry = reg.INSTANCE
            self.sock = ps.AirTouchSocket(self.loop, HOST, self.port, reg.INSTANCE)
            self.sock.subscribe_on_message_received(self._on_message)
            self.sock.subscribe_on_connection_changed(self._on_connection)
        elif self.mode == "discover":
            pass
        else:
            raise SimHarnessError(f"unknown mode {self.mode}")

    async def _on_message(self, header, message) -> None:
        entry = {
            "seq": None,
            "t": self.loop._vtime,
            "header": header,
            "message": message,
        }
        try:
            reading = adapter.reading_of(self.gen, header, message)
        except adapter.AdapterError:
            raise
        entry["reading"] = reading
        entry["seq"] = self.trace.add("sock.message", k=reading["kind"], pid=getattr(header, "packet_id", None))
        self.messages.append(entry)
        for fn in self.hooks.get("message", []):
            r = fn(self, entry)
            if asyncio.iscoroutine(r):
                await r

    async def _on_connection(self, *, connected: bool) -> None:
        self.trace.add("sock.connected", v=connected)

    # -- timeline steps -------------------------------------------------------------
    def _step(self, step: dict) -> None:
        op = step["op"]
        fn = getattr(self, "op_" + op.replace(".", "_"), None)
        if fn is None:
            raise SimHarnessError(f"unknown scenario op {op}")
        fn(step)

    # user ops run as their own tasks so that the timeline never blocks
    def _spawn_user(self, step: dict, coro_fn, chain=()) -> None:
        """One user task: the call of `step`, then - in the same task, with no yield of its own in between - the calls of
        `chain` [(step, coro_fn), ...], each with its own call record (an application awaiting one command after another)."""
        todo = []
        for (st, fn) in [(step, coro_fn)] + list(chain):
            cid = len(self.calls)
            rec = {"id": cid, "op": st["op"], "step": st, "t_call": None, "t_ret": None, "result": None, "exc": None,
                   "seq_call": None, "seq_ret": None}
            self.calls.append(rec)
            todo.append((cid, rec, st, fn))

        async def runner():
            for _ in range(step.get("yields", 0)):
                await asyncio.sleep(0)
            for (cid, rec, st, fn) in todo:
                rec["t_call"] = self.loop._vtime
                rec["seq_call"] = self.trace.add("user.call", k=st["op"], id=cid, d=_brief(st))
                try:
                    rec["result"] = await fn()
                    rec["t_ret"] = self.loop._vtime
                    rec["seq_ret"] = self.trace.add("user.return", k=st["op"], id=cid, r=_p(rec["result"]))
                except asyncio.CancelledError as exc:
                    me = asyncio.current_task(self.loop)
                    if me is None or me.cancelling() or getattr(self, "tearing_down", False) or self.loop.is_closed() or not self.loop.is_running():
                        raise
                    # nobody cancelled this caller: the call itself let a CancelledError escape (a cancelled shared future)
                    rec["t_ret"] = self.loop._vtime
                    rec["exc"] = exc
                    rec["seq_ret"] = self.trace.add("user.raise", k=st["op"], id=cid, e="CancelledError (caller not cancelled)")
                    return
                except adapter.AdapterError:
                    raise
                except BaseException as exc:  # noqa: BLE001
                    rec["t_ret"] = self.loop._vtime
                    rec["exc"] = exc
                    rec["seq_ret"] = self.trace.add("user.raise", k=st["op"], id=cid, e=type(exc).__name__)

        t = self.loop.create_task(runner())
        t.add_done_callback(self._user_done)
        self.user_tasks.append(t)

    def _user_done(self, task) -> None:
        if task.cancelled():
            return
        exc = task.exception()
        if exc is not None:
            # AdapterError or a bug in the harness: surface it.
            self.error = exc
            self.verdict = "harness"
            self.loop.stop()

    def op_user_init(self, step) -> None:
        self._spawn_user(step, lambda: self.at.init())

    def op_user_shutdown(self, step) -> None:
        self._spawn_user(step, lambda: self.at.shutdown())

    def op_user_open(self, step) -> None:
        self._spawn_user(step, lambda: self.sock.open_socket())

    def op_user_close(self, step) -> None:
        self._spawn_user(step, lambda: self.sock.close())

    def op_user_reset(self, step) -> None:
        self._spawn_user(step, lambda: self.sock.reset_connection())

    def op_user_send(self, step) -> None:
        def sender(st):
            async def go():
                msg = adapter.message_from(self.gen, st["msg"])
                await self.sock.send(msg, adapter.policy_of(st.get("policy", "idem")))
            return go

        # "then": further messages sent by the same task, one after the other
        chain = [(dict(x, op="user.send", at=step.get("at"), chained=True), None) for x in step.get("then", [])]
        chain = [(st, sender(st)) for (st, _f) in chain]
        self._spawn_user(step, sender(step), chain)

    def op_user_send_on_connect(self, step) -> None:
        """A connection subscriber that submits a message from inside its connected=True callback - what the API classes
        do for their handshake / refresh requests: the socket already calls itself connected, the buffered messages have
        not been flushed yet."""
        cid = len(self.calls)
        want = step.get("when", "connected") == "connected"  # "disconnected": from inside the connected=False callback
        st = dict(step, op="user.send", on_connect=want, on_disconnect=not want)
        rec = {"id": cid, "op": "user.send", "step": st, "t_call": None, "t_ret": None, "result": None, "exc": None,
               "seq_call": None, "seq_ret": None}
        self.calls.append(rec)
        done = []

        async def on_conn(*, connected: bool) -> None:
            if connected != want or done:
                return
            done.append(1)
            rec["t_call"] = self.loop._vtime
            rec["seq_call"] = self.trace.add("user.call", k="user.send", id=cid, d=_brief(st))
            try:
                msg = adapter.message_from(self.gen, st["msg"])
                await self.sock.send(msg, adapter.policy_of(st.get("policy", "idem")))
                rec["t_ret"] = self.loop._vtime
                rec["seq_ret"] = self.trace.add("user.return", k="user.send", id=cid, r=None)
            except asyncio.CancelledError:
                raise
            except adapter.AdapterError:
                raise
            except BaseException as exc:  # noqa: BLE001
                rec["t_ret"] = self.loop._vtime
                rec["exc"] = exc
                rec["seq_ret"] = self.trace.add("user.raise", k="user.send", id=cid, e=type(exc).__name__)

        self._conn_subs = getattr(self, "_conn_subs", [])
        self._conn_subs.append(on_conn)
        self.sock.subscribe_on_connection_changed(on_conn)

    def op_user_send_object(self, step) -> None:
        """Send a message object captured earlier (C03 relay)."""
        obj = step["_obj"]
        self._spawn_user(step, lambda: self.sock.send(obj, adapter.policy_of(step.get("policy", "idem"))))

    def resolve(self, target):
        if target[0] == "at":
            return self.at
        if target[0] == "ac":
            for ac in self.at.air_conditioners:
                if ac.ac_id == target[1]:
                    return ac
            return None
        if target[0] == "zone":
            for ac in self.at.air_conditioners:
                for z in ac.zones:
                    if z.zone_id == target[1]:
                        return z
            return None
        raise SimHarnessError(f"bad target {target}")

    def op_user_api(self, step) -> None:
        async def go():
            obj = self.resolve(step["target"])
            if obj is None:
                raise LookupError("no such entity")
            args, kwargs = _api_args(step["call"], step.get("args", {}))
            if step["call"] == "set_target_temperature" and step["target"][0] == "ac":
                # what the object itself advertises as "the current [min, max]" at the moment of the call
                try:
                    self.trace.add("user.advertised_limits", lo=float(obj.min_target_temperature), hi=float(obj.max_target_temperature))
                except Exception:  # noqa: BLE001 - a getter that raises is C10's business
                    pass
            return await getattr(obj, step["call"])(*args, **kwargs)

        self._spawn_user(step, go)

    def op_user_second_system(self, step) -> None:
        """Another AirTouch system driven by the same process (an application may talk to several consoles): its own simulated
        network and console under another address, its own client object, initialised and left running. Nothing about it is
        observed or judged - it must simply not influence the system under observation."""
        import pyairtouch
        from sim.trace import Trace

        gen2 = step.get("gen", self.gen)
        host2, port2 = "10.0.0.2", (9004 if gen2 == 4 else 9005)
        tr2 = Trace(self.loop)
        net2 = SimNet(self.loop, tr2)
        self.loop.net = self.net  # the primary network stays the default
        net2.latency = self.net.latency
        net2.segment = lambda data: [data]
        console2 = refconsole.Console(net2, refconsole.default_installation(gen2), tr2)
        net2.listen(host2, port2, console2)
        if not hasattr(self.loop, "nets_by_host"):
            self.loop.nets_by_host = {}
        self.loop.nets_by_host[host2] = net2
        model = pyairtouch.AirTouchModel.AIRTOUCH_4 if gen2 == 4 else pyairtouch.AirTouchModel.AIRTOUCH_5
        at2 = pyairtouch.connect(model, host2, port2, airtouch_id="AT-2", name="Other", serial="S-2")
        self.second = (at2, net2, console2)
        self.trace.add("user.second_system", gen=gen2)

        async def go():
            await at2.init()

        t = self.loop.create_task(go())
        self.user_tasks.append(t)

    def op_user_second_socket(self, step) -> None:
        """Socket mode: a second AirTouchSocket of the same generation in the same process (another console, or the same one
        opened twice), with its own simulated network and a passive console. It shares the process-level message registry
        with the socket under observation; nothing it receives is recorded."""
        import pyairtouch.comms.socket as ps
        from sim.trace import Trace

        host2 = "10.0.0.2"
        tr2 = Trace(self.loop)
        net2 = SimNet(self.loop, tr2)
        self.loop.net = self.net
        net2.latency = 0.0
        net2.segment = lambda data: [data]
        console2 = refconsole.Console(net2, refconsole.default_installation(self.gen), tr2)
        console2.silent = True
        console2.apply_controls = False
        net2.listen(host2, self.port, console2)
        if not hasattr(self.loop, "nets_by_host"):
            self.loop.nets_by_host = {}
        self.loop.nets_by_host[host2] = net2
        sock2 = ps.AirTouchSocket(self.loop, host2, self.port, self.registry)
        self.second = (sock2, net2, console2)
        self.trace.add("user.second_socket")
        t = self.loop.create_task(sock2.open_socket())
        self.user_tasks.append(t)

    def op_console2_raw(self, step) -> None:
        """Bytes from the second socket's console (see user.second_socket)."""
        second = getattr(self, "second", None)
        link = second[2].current_link() if second else None
        if link is None:
            self.trace.add("console2.raw_skipped")
            return
        self.trace.add("console2.raw", n=len(step["hex"]) // 2)
        link.send(bytes.fromhex(step["hex"]))

    def op_user_subscribe(self, step) -> None:
        name = step["name"]
        sub = self.subs.get(name)
        if sub is None:
            sub = self.subs[name] = Sub(self, name, raises=step.get("raises", False), yields=step.get("sub_yields", 0), inside=step.get("then"), inside_late=step.get("then_late", False))
        obj = self.resolve(step["target"])
        if obj is None:
            self.trace.add("user.subscribe_skipped", k=name)
            return
        method = step.get("method", "subscribe")
        getattr(obj, method)(sub)
        if step.get("inside"):
            self.trace.add("user.subscribe", k=name, m=method, target=tuple(step["target"]), inside=True)
        else:
            self.trace.add("user.subscribe", k=name, m=method, target=tuple(step["target"]))

    def op_user_sock_conn_subscribe(self, step) -> None:
        """A connection subscriber on the bare socket that takes a while over the connected=True notification (virtual seconds
        of work, as an application that greets the console and updates its own state would), and may fail at the end of it."""
        work = float(step.get("work", 0.0))
        work_down = float(step.get("work_down", 0.0))  # ... and over the connected=False notification
        raises = bool(step.get("raises", False))
        name = step.get("name", "slowconn")

        async def on_conn(*, connected: bool) -> None:
            self.trace.add("sub.call", k=name, args=(connected,))
            if connected and work:
                await asyncio.sleep(work)
            if not connected and work_down:
                await asyncio.sleep(work_down)
            if connected and raises:
                raise RuntimeError(f"connection subscriber {name} fails")

        self._conn_subs = getattr(self, "_conn_subs", [])
        self._conn_subs.append(on_conn)
        self.sock.subscribe_on_connection_changed(on_conn)

    def op_user_sock_subscribe(self, step) -> None:
        """Extra message subscriber on the bare socket (may raise, may yield)."""
        name = step.get("name", "extra")
        sub = Sub(self, name, raises=step.get("raises", False), yields=step.get("sub_yields", 0), replies=step.get("replies"))
        sub.after = (int(step.get("after_yields", 0)), float(step.get("after_sleep", 0.0)))
        self.subs[name] = sub
        self.sock.subscribe_on_message_received(sub)

    def op_user_send_raw_object(self, step) -> None:
        """send_with_header() of a message no encoder is registered for."""
        import pyairtouch.comms as pc

        async def go():
            msg = pc.UnsupportedMessage(unsupported_id=step.get("mid", 0x77), raw_data=b"\x01\x02")
            ok = adapter.message_from(self.gen, {"kind": "ac_status_request"})
            enc = self.registry.get_encoder(ok.message_id)
            hdr = self.registry.header_factory.create_from_message(ok, enc.size(ok))
            if step.get("bad_header"):
                # a header the header encoder cannot encode (packet id outside one byte) in front of an ordinary message
                import dataclasses

                hdr = dataclasses.replace(hdr, packet_id=300)
                msg = ok
            await self.sock.send_with_header(hdr, msg, adapter.policy_of(step.get("policy", "idem")))

        self._spawn_user(step, go)

    def op_user_leakcheck(self, step) -> None:
        """What the client still has scheduled / open right now."""
        utasks = set(self.user_tasks)
        live = [t for t in self.loop.live_tasks() if t not in utasks and not _is_main(t)]
        self.leaks.append({
            "t": self.loop._vtime, "label": step.get("label", ""),
            "tasks": [_coro_name(t) for t in live],
            "timers": [(h._when, _cb_name(h)) for h in self.loop.pending_timers()],
            "live_links": [l.id for l in self.net.live_links()],
            "open_links": [l.id for l in self.net.open_links()],
            "busy_user_calls": [c["id"] for c in self.calls if c["t_call"] is not None and c["t_ret"] is None],
        })
        self.trace.add("user.leakcheck", tasks=len(live))

    def op_user_snapshot(self, step) -> None:
        self.take_snapshot(step.get("label", ""))

    def take_snapshot(self, label="") -> dict:
        snap = adapter.snapshot(self.at)
        seq = self.trace.add("user.snapshot", k=label)
        snap["_seq"] = seq
        self.snapshots.append((self.loop._vtime, label, snap))
        return snap

    def op_user_discover(self, step) -> None:
        import pyairtouch

        async def go():
            res = await pyairtouch.discover(step.get("remote_host"))
            self.discovered = res
            return len(res)

        self._spawn_user(step, go)

    # console ops
    def op_console_set(self, step) -> None:
        ent, idx = step["entity"]
        store = {"ac": self.console.ac, "zone": self.console.zone, "timer": self.console.timer}[ent]
        if ent == "errtext":
            self.console.errtext[idx] = step["fields"]["text"]
        elif idx in store:
            for k, v in step["fields"].items():
                store[idx][k] = v
        self.trace.add("console.state", ent=ent, idx=idx, fields=tuple(sorted((k, repr(v)) for k, v in step["fields"].items())))
        if step.get("publish", True):
            self.console.publish({"ac": "ac", "zone": "zone", "timer": "timer"}[ent], [idx] if step.get("only", True) else None)

    def op_console_errtext(self, step) -> None:
        self.console.errtext[step["ac"]] = step["text"]
        if step.get("publish", False):
            self.console.publish("error", [step["ac"]])

    def op_console_version(self, step) -> None:
        self.console.inst = dict(self.console.inst, versions=step["versions"], update=step["update"])
        if step.get("publish", True):
            self.console.publish("version")

    def op_console_publish(self, step) -> None:
        for what, recs in (step.get("foreign") or {}).items():
            for i, st in recs.items():
                key = "ac" if what == "ac" else ("group" if self.sc["gen"] == 4 else "zone")
                self.console.foreign[what][int(i)] = dict(st, **{key: int(i)})
        self.console.publish(step["what"], step.get("ids"))

    def op_console_unreported(self, step) -> None:
        """Zones that appear in the names answer but in no status frame until further notice (an empty list ends it)."""
        self.console.unreported = set(step.get("zones", []))

    def op_console_report_foreign(self, step) -> None:
        """From now on the console's full status answers also list records of entities the installation does not contain
        (a group enabled on the console but never named, say), in front of the known ones."""
        for what, recs in (step.get("foreign") or {}).items():
            for i, st in recs.items():
                key = "ac" if what == "ac" else ("group" if self.sc["gen"] == 4 else "zone")
                self.console.foreign[what][int(i)] = dict(st, **{key: int(i)})
        self.console.report_foreign = True

    def op_console_raw(self, step) -> None:
        link = self.console.current_link()
        if link is None:
            self.trace.add("console.raw_skipped")
            return
        data = bytes.fromhex(step["hex"])
        chunks = None
        if "cuts" in step:
            cuts = [c for c in step["cuts"] if 0 < c < len(data)]
            pts = [0] + sorted(set(cuts)) + [len(data)]
            chunks = [data[a:b] for a, b in zip(pts, pts[1:])]
        self.console.send_raw(link, data, chunks=chunks, gaps=step.get("gaps"))

    def op_console_silent(self, step) -> None:
        self.console.silent = step.get("on", True)
        if self.console.silent:
            self.net.fired("proto.silence")

    def op_console_mute(self, step) -> None:
        self.console.mute = set(step["kinds"])

    def op_console_extras(self, step) -> None:
        self.console.extras[step["kind"]] = {
            "before": [bytes.fromhex(h) for h in step.get("before", [])],
            "after": [bytes.fromhex(h) for h in step.get("after", [])],
            "once": step.get("once", False),
        }

    def op_console_script(self, step) -> None:
        self.console.scripts[step["kind"]] = list(step["actions"])

    def op_user_hb_start(self, step) -> None:
        """Bare HeartbeatManager with a custom configuration on the socket-level client."""
        import pyairtouch.comms.heartbeat as hb

        gen = self.gen

        def match(message) -> bool:
            try:
                return adapter.reading_of(gen, None, message)["kind"] == "version"
            except adapter.AdapterError:
                return False

        if getattr(self, "hb", None) is None or not step.get("created_earlier"):
            cfg = hb.HeartbeatConfig(message=adapter.message_from(gen, {"kind": "version_request"}), response_match=match,
                                     interval=step["interval"], timeout=step["timeout"])
            self.hb = hb.HeartbeatManager(self.loop, self.sock, cfg)
        if step.get("create_only"):
            self.trace.add("user.hb_create")
            return
        self._spawn_user(step, lambda: self.hb.start())

    def op_user_hb_stop(self, step) -> None:
        self._spawn_user(step, lambda: self.hb.stop())

    def op_console_ignore(self, step) -> None:
        """Control kinds the console silently ignores from now on (a busy / locked console)."""
        self.console.ignore_controls = set(step.get("kinds", []))

    def op_console_delay(self, step) -> None:
        self.console.answer_delay = step["delay"]

    def op_console_install(self, step) -> None:
        self.console.set_installation(step["installation"])

    def op_console_reboot(self, step) -> None:
        self.net.fired("console.reboot")
        for link in list(self.console.links):
            if not link.server_closed:
                link.rst()
        if "installation" in step:
            self.console.set_installation(step["installation"])

    # net ops
    def op_net_fates(self, step) -> None:
        for f in step["fates"]:
            self.net.fates.append(Fate(f["kind"], f.get("latency", 0.0)))

    def op_net_default_fate(self, step) -> None:
        self.net.default_fate = Fate(step["kind"], step.get("latency", 0.0))

    def op_net_fin(self, step) -> None:
        link = self.net.current_link()
        if link is not None:
            self.trace.add("fault.fired", k="tcp.peer_fin", link=link.id)
            self.net.fired("tcp.peer_fin")
            link.fin()

    def op_net_rst(self, step) -> None:
        link = self.net.current_link()
        if link is None:
            # a connection the client is still closing (unflushed bytes under flow control) can be reset by the peer too
            closing = [l for l in self.net.live_links() if l.transport is not None and not l.transport._conn_lost]
            link = closing[-1] if closing else None
        if link is not None:
            self.trace.add("fault.fired", k="tcp.peer_rst", link=link.id)
            self.net.fired("tcp.peer_rst")
            link.rst(step.get("err", "ECONNRESET"))

    def op_net_fail_write(self, step) -> None:
        self.net.fail_write(step.get("nth", 1), step.get("err", "EPIPE"))

    def op_net_blackhole(self, step) -> None:
        on = step.get("on", True)
        link = self.net.current_link()
        if link is not None:
            link.blackhole = on
            if on:
                self.trace.add("fault.fired", k="tcp.blackhole", link=link.id)
                self.net.fired("tcp.blackhole")

    def op_net_stall(self, step) -> None:
        if not step.get("on", True):
            # the window opens again: every stalled transport flushes (also one the client already closed)
            for link in self.net.links:
                if link.transport is not None and link.transport._stalled:
                    link.transport._set_stall(False)
            return
        link = self.net.current_link()
        if link is not None and link.transport is not None:
            self.trace.add("fault.fired", k="tcp.stall", link=link.id)
            self.net.fired("tcp.stall")
            link.transport._set_stall(True)

    def op_net_fin_next_accept(self, step) -> None:
        self.net.fin_new_links.append(step.get("delay", 0.0))

    def op_net_rst_next_accept(self, step) -> None:
        """The next accepted connection is reset by the peer right away (or `delay` later)."""
        self.net.fin_new_links.append(("rst", step.get("delay", 0.0)))

    def op_sched_at_timer(self, step) -> None:
        """The step `then` is carried out at the instant (plus `delta`) at which the earliest loop timer due within [lo, hi]
        falls due - a timer of the client (a heartbeat deadline, a retry delay) whose exact instant depends on the run so far.
        Which of the two runs first within that instant is the loop's ordinary tie draw."""
        lo, hi = float(step["lo"]), float(step["hi"])
        due = [h._when for h in self.loop.pending_timers() if lo <= h._when <= hi]
        self.trace.add("sched.at_timer", found=len(due), when=(min(due) if due else None))
        if not due:
            return
        then = dict(step["then"])
        self.net.fired("sched.call_at_client_timer")
        self.loop.sim_at(min(due) + float(step.get("delta", 0.0)), self._step, then)

    def op_net_at_client_close(self, step) -> None:
        """The step `then` is carried out in the loop pass in which the client next closes a transport (a reset of its own, say),
        made runnable ahead of (order "before") or behind the transport's connection_lost callback."""
        then = dict(step["then"])
        self.net.at_client_close.append((step.get("order", "before"), lambda: self._step(then)))

    def op_net_before_accept(self, step) -> None:
        """The step `then` is carried out when the next accepted connection attempt is about to complete; the attempt then
        completes `passes` loop passes later."""
        then = dict(step["then"])
        self.net.before_accept.append((int(step.get("passes", 1)), lambda: self._step(then)))

    def op_net_stall_next(self, step) -> None:
        self.net.stall_new_links.append(step["duration"])

    def op_net_latency(self, step) -> None:
        self.net.latency = step["latency"]
        link = self.net.current_link()
        if link is not None and step.get("current", True):
            link.latency = step["latency"]

    def op_user_init_discovered(self, step) -> None:
        """init() + shutdown() of every client returned by discover(): shows host/port they connect to."""
        for i, at in enumerate(self.discovered or []):
            async def go(at=at):
                r = await at.init()
                await at.shutdown()
                return r

            self._spawn_user(dict(step, index=i), go)

    # UDP (discovery)
    def _udp_transport(self, port: int):
        for tr in self.net.udp:
            if tr.local_port == port and not tr._closing:
                return tr
        return None

    def op_udp_deliver(self, step) -> None:
        tr = self._udp_transport(step["port"])
        data = bytes.fromhex(step["hex"])
        if tr is None:
            self.trace.add("udp.undeliverable", port=step["port"], data=data.hex())
            return
        tr.deliver(data, tuple(step.get("addr", ["10.0.0.9", step["port"]])))

    def op_udp_responders(self, step) -> None:
        """Reactive consoles: answer the n-th request seen on a port after a delay."""
        self.udp_responders = step["responders"]
        seen = {}

        def handler(transport, data, addr):
            port = transport.local_port
            n = seen[port] = seen.get(port, 0) + 1
            for r in self.udp_responders:
                if r["port"] != port or n not in r.get("on_requests", [1, 2, 3]):
                    continue
                for k in range(r.get("copies", 1)):
                    self.loop.sim_after(r["delay"] + k * r.get("copy_gap", 0.0), self._udp_reply, port, r)

        self.net.udp_handler = handler

    def _udp_reply(self, port: int, r: dict) -> None:
        tr = self._udp_transport(port)
        data = bytes.fromhex(r["hex"])
        if tr is None:
            self.trace.add("udp.undeliverable", port=port, data=data.hex())
            return
        tr.deliver(data, tuple(r.get("addr", ["10.0.0.9", port])))

    def op_net_clear_faults(self, step) -> None:
        """End of a fault script: nothing stays armed."""
        self.net.write_faults.clear()
        self.net.fates.clear()
        self.net.stall_new_links.clear()
        self.net.fin_new_links.clear()
        self.net.before_accept.clear()
        self.net.at_client_close.clear()
        for link in self.net.links:
            if link.transport is not None and link.transport._stalled:
                link.transport._set_stall(False)

    def op_noop(self, step) -> None:
        pass

    # -- end of run ----------------------------------------------------------------
    def _collect_final(self) -> None:
        loop = self.loop
        utasks = set(self.user_tasks)
        main = None
        live = [t for t in loop.live_tasks() if t not in utasks]
        self.final = {
            "live_tasks": [(t._sim_index, _coro_name(t)) for t in live if not _is_main(t)],
            "timers": [(h._when, _cb_name(h)) for h in loop.pending_timers()],
            "live_links": [l.id for l in self.net.live_links()],
            "open_links": [l.id for l in self.net.open_links()],
            "unfinished_calls": [c["id"] for c in self.calls if c["t_ret"] is None],
            "exceptions": list(loop.exceptions),
            "steps": loop.steps,
            "vtime": loop._vtime,
        }
        del main


def _is_main(task) -> bool:
    return _coro_name(task).endswith("World._main")


def _coro_name(task) -> str:
    c = task.get_coro()
    return getattr(c, "__qualname__", type(c).__name__)


def _cb_name(handle) -> str:
    cb = handle._callback
    name = getattr(cb, "__qualname__", None) or getattr(getattr(cb, "func", None), "__qualname__", None) or type(cb).__name__
    return name


def _brief(step: dict):
    return tuple(sorted((k, repr(v)) for k, v in step.items() if k not in ("at", "op", "_obj")))


def _api_args(call: str, a: dict):
    en = adapter.api_enum
    if call == "set_power" and "ac_power" in a:
        return (en("AcPowerControl", a["ac_power"]),), {}
    if call == "set_power" and "zone_power" in a:
        return (en("ZonePowerState", a["zone_power"]),), {}
    if call == "set_mode":
        kw = {}
        if "power_on" in a:
            kw["power_on"] = a["power_on"]
        return (en("AcMode", a["mode"]),), kw
    if call == "set_fan_speed":
        return (en("AcFanSpeed", a["fan"]),), {}
    if call == "set_target_temperature":
        return (a["temperature"],), {}
    if call == "set_damper_percentage":
        return (a["percent"],), {}
    if call == "set_quick_timer":
        v = a["value"]
        if "time" in v:
            val = datetime.time(hour=v["time"][0], minute=v["time"][1])
        elif "delta_s" in v:
            val = datetime.timedelta(seconds=v["delta_s"])
        else:
            val = v["other"]
        return (en("AcTimerType", a["timer_type"]), val), {}
    if call == "clear_quick_timer":
        return (en("AcTimerType", a["timer_type"]),), {}
    if call == "check_for_updates":
        return (), {}
    raise SimHarnessError(f"unknown api call {call}")
