"""./check --canaries [ID ...] : sensitivity / neutrality self-test.

Each canary (canaries/*.json) is a small textual edit of pyairtouch that either
breaks one property while keeping the pinned tests green ("expect": "fail") or
preserves behaviour ("expect": "pass").  The edit is applied to a scratch copy
of /repo's package OUTSIDE /repo and /verif, the property's quick check is run
with PYAIRTOUCH_SRC pointing at the copy, and the copy is deleted.
"""

from __future__ import annotations

import glob
import json
import os
import shutil
import subprocess
import sys
import tempfile

ROOT = os.path.dirname(os.path.dirname(os.path.abspath(__file__)))


class CanaryError(Exception):
    pass


def apply_edits(root: str, edits: list[dict]) -> None:
    for e in edits:
        p = os.path.join(root, e["file"])
        s = open(p).read()
        if s.count(e["old"]) != 1:
            raise CanaryError(f"canary edit does not apply exactly once in {e['file']}: {e['old'][:60]!r} ({s.count(e['old'])}x)")
        open(p, "w").write(s.replace(e["old"], e["new"]))


def run_one(path: str, runs: int | None, check_tests: bool) -> dict:
    c = json.load(open(path))
    tmp = tempfile.mkdtemp(prefix="pyat-canary-")
    try:
        shutil.copytree("/repo/pyairtouch", os.path.join(tmp, "pyairtouch"))
        apply_edits(tmp, c["edits"])
        out = {"name": os.path.basename(path), "property": c["property"], "expect": c["expect"]}
        if check_tests:
            shutil.copytree("/repo/tests", os.path.join(tmp, "tests"))
            r = subprocess.run(["/venv/bin/python", "-m", "pytest", "-q", "-p", "no:cacheprovider", "-x", "tests"], cwd=tmp,
                               env=dict(os.environ, PYTHONPATH=tmp), capture_output=True, text=True, timeout=600)
            out["tests_pass"] = r.returncode == 0
        for prop in c["property"] if isinstance(c["property"], list) else [c["property"]]:
            cmd = [os.path.join(ROOT, "check"), prop, "--tier", "quick", "--no-selftest-b"]
            if runs:
                cmd += ["--runs", str(runs)]
            env = dict(os.environ, PYAIRTOUCH_SRC=tmp, VERIF_CANARY="1")
            r = subprocess.run(cmd, cwd=ROOT, env=env, capture_output=True, text=True, timeout=3000)
            out.setdefault("results", {})[prop] = r.returncode
            rules = sorted({l.split("rule=")[1].split()[0] for l in r.stdout.splitlines() if "rule=" in l})
            out.setdefault("rules", {})[prop] = rules
            if r.returncode == 2:
                out["harness_output"] = r.stdout[-1500:]
        want = 1 if c["expect"] == "fail" else 0
        out["ok"] = all(rc == want for rc in out["results"].values())
        return out
    finally:
        shutil.rmtree(tmp, ignore_errors=True)


def main(argv) -> int:
    import argparse

    ap = argparse.ArgumentParser()
    ap.add_argument("ids", nargs="*")
    ap.add_argument("--runs", type=int)
    ap.add_argument("--tests", action="store_true", help="also run the pinned test-suite against each canary")
    a = ap.parse_args(argv)
    files = sorted(glob.glob(os.path.join(ROOT, "canaries", "*.json")))
    bad = 0
    for f in files:
        c = json.load(open(f))
        props = c["property"] if isinstance(c["property"], list) else [c["property"]]
        if a.ids and not (set(a.ids) & set(props)) and os.path.basename(f)[:-5] not in a.ids:
            continue
        # evidence files are rewritten by the check; keep the real ones
        saved = {}
        for p in props:
            ep = os.path.join(ROOT, "evidence", f"{p}.json")
            if os.path.exists(ep):
                saved[ep] = open(ep).read()
        try:
            r = run_one(f, a.runs, a.tests)
        except CanaryError as exc:
            r = {"name": os.path.basename(f), "ok": False, "error": str(exc)}
        finally:
            for ep, txt in saved.items():
                open(ep, "w").write(txt)
        print(json.dumps(r))
        if not r["ok"] or r.get("tests_pass") is False:
            bad += 1
    print(f"canaries: {bad} unexpected")
    return 0 if bad == 0 else 1


if __name__ == "__main__":
    sys.exit(main(sys.argv[1:]))
