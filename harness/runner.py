"""Runner: seeded batch of simulated runs for one property, evidence, replay files.

A check module provides:

  ID, TITLE, LEVEL ("exploration" | "fault_enumeration"), RULE (text),
  COMPONENTS {"real": [...], "stub": [...]}, ASSUMPTIONS [...]
  budget(tier) -> number of generated runs
  generate(rng, index, tier) -> scenario dict
  execute(scenario) -> dict(violations=[{rule, detail, sig}], digest, shape, nontrivial,
                            faults={kind: n}, probes={name: n}, sim_seconds, steps, evals=1)
  enumerated(tier) -> iterable of scenarios (optional, exhaustive sub-spaces)

Exit codes: 0 held; 1 at least one unlisted violation (VIOLATION lines); 2 HARNESS-ERROR.
"""

from __future__ import annotations

import concurrent.futures as cf
import faulthandler
import hashlib
import json
import multiprocessing
import os
import random
import subprocess
import sys
import time
import traceback

ROOT = os.path.dirname(os.path.dirname(os.path.abspath(__file__)))
EVIDENCE_DIR = os.path.join(ROOT, "evidence")
REPLAY_DIR = os.path.join(ROOT, "replays")
KNOWN = os.path.join(ROOT, "known_findings.json")


def verif_seed() -> int:
    try:
        return int(os.environ.get("VERIF_SEED", "0"))
    except ValueError:
        return 0


def run_seed(prop: str, vseed: int, index: int) -> int:
    h = hashlib.sha256(f"{prop}:{vseed}:{index}".encode()).digest()
    return int.from_bytes(h[:8], "big")


def scenario_for(mod, vseed: int, index: int, tier: str) -> dict:
    rs = run_seed(mod.ID, vseed, index)
    rng = random.Random(rs)
    sc = mod.generate(rng, index, tier)
    sc.setdefault("format", 1)
    sc["property"] = mod.ID
    sc["verif_seed"] = vseed
    sc["run_index"] = index
    sc["run_seed"] = rs
    sc.setdefault("sched_seed", rng.getrandbits(32))
    return sc


def _merge(dst: dict, src: dict) -> None:
    for k, v in src.items():
        dst[k] = dst.get(k, 0) + v


def _worker(args):
    modname, vseed, indices, tier, enumerated_slice = args
    faulthandler.enable()
    # watchdog against a hung worker (a step cap does not bound a hang); an enumeration slice of the thorough tier runs long
    faulthandler.dump_traceback_later(900 if tier == "quick" else 4 * 3600, exit=True)
    import importlib

    mod = importlib.import_module(modname)
    agg = {
        "evals": 0, "runs": 0, "faults": {}, "probes": {}, "sim_seconds": 0.0, "steps": 0,
        "shapes": set(), "violations": [], "selfcheck_a": 0, "selfcheck_a_fail": [], "samples": [],
        "digests": {}, "cross": {}, "sets": {},
    }
    try:
        items = []
        for idx in indices:
            items.append(("gen", idx, None))
        if enumerated_slice is not None:
            lo, hi, step = enumerated_slice
            for j, sc in enumerate(mod.enumerated(tier)):
                if j % step == lo:
                    items.append(("enum", j, sc))
        for kind, idx, sc in items:
            if kind == "gen":
                sc = scenario_for(mod, vseed, idx, tier)
            else:
                sc.setdefault("format", 1)
                sc["property"] = mod.ID
                sc["enumerated_index"] = idx
                sc.setdefault("sched_seed", 0)
            res = mod.execute(sc)
            agg["runs"] += 1
            agg["evals"] += res.get("evals", 1)
            _merge(agg["faults"], res.get("faults", {}))
            _merge(agg["probes"], res.get("probes", {}))
            _merge(agg["cross"], res.get("cross", {}))
            for k, vals in res.get("sets", {}).items():
                agg["sets"].setdefault(k, set()).update(vals)
            agg["sim_seconds"] += res.get("sim_seconds", 0.0)
            agg["steps"] += res.get("steps", 0)
            if res.get("nontrivial"):
                agg["shapes"].add(res["shape"])
            if kind == "gen" and idx % 50 == 0:
                res2 = mod.execute(sc)
                agg["selfcheck_a"] += 1
                if res2["digest"] != res["digest"]:
                    agg["selfcheck_a_fail"].append(idx)
                agg["digests"][idx] = res["digest"]
            if kind == "gen" and len(agg["samples"]) < 1 and idx % 7 == 0:
                agg["samples"].append(_sample(sc, res))
            for v in res["violations"]:
                if len(agg["violations"]) < 40:
                    agg["violations"].append({"scenario": sc, "violation": v, "digest": res["digest"]})
                else:
                    agg.setdefault("violations_dropped", 0)
                    agg["violations_dropped"] = agg.get("violations_dropped", 0) + 1
        agg["shapes"] = sorted(agg["shapes"])
        agg["sets"] = {k: sorted(v) for k, v in agg["sets"].items()}
        return agg
    except BaseException as exc:  # noqa: BLE001
        return {"harness_error": f"{type(exc).__name__}: {exc}", "traceback": traceback.format_exc()}
    finally:
        faulthandler.cancel_dump_traceback_later()


def _sample(sc: dict, res: dict) -> dict:
    s = json.loads(json.dumps(sc, default=str))
    tl = s.get("timeline", [])
    if len(tl) > 14:
        s["timeline"] = tl[:12] + [{"...": f"{len(tl) - 12} more steps"}]
    s.pop("installation", None) if len(json.dumps(s.get("installation", ""))) > 1500 else None
    return {"scenario": s, "digest": res["digest"][:16], "steps": res.get("steps"), "violations": len(res["violations"])}


# ----------------------------------------------------------------------------- known findings
def load_known() -> dict:
    try:
        with open(KNOWN) as f:
            return json.load(f)
    except FileNotFoundError:
        return {"open": [], "fixed": []}


def match_known(known: dict, prop: str, v: dict):
    for k in known.get("open", []):
        if k["property"] != prop or k["rule"] != v["rule"]:
            continue
        sig = v.get("sig", {})
        if all(sig.get(kk) == vv for kk, vv in k.get("shape", {}).items()):
            return k
    return None


# ----------------------------------------------------------------------------- minimisation
def minimise(mod, sc: dict, rule: str, sig: dict | None, budget: int = 300) -> dict:
    """Delta debugging on the scenario; keeps a candidate iff the same rule fails."""
    calls = [0]

    def fails(c) -> bool:
        if calls[0] >= budget:
            return False
        calls[0] += 1
        try:
            r = mod.execute(c)
        except Exception:  # noqa: BLE001
            return False
        for v in r["violations"]:
            if v["rule"] == rule and (sig is None or v.get("sig") == sig):
                return True
        return False

    cur = json.loads(json.dumps(sc))
    # 1. ddmin on timeline
    tl = cur.get("timeline", [])
    n = 2
    while len(tl) >= 2 and calls[0] < budget:
        chunk = max(1, len(tl) // n)
        reduced = False
        for i in range(0, len(tl), chunk):
            cand = dict(cur, timeline=tl[:i] + tl[i + chunk :])
            if fails(cand):
                tl = cand["timeline"]
                cur = cand
                n = max(2, n - 1)
                reduced = True
                break
        if not reduced:
            if chunk == 1:
                break
            n = min(len(tl), n * 2)
    # 2. knob simplifications
    simpl = []
    if cur.get("sched_seed", 0) != 0:
        simpl.append(lambda c: dict(c, sched_seed=0))
    k = cur.get("knobs", {})
    for key, val in (("seg", {"mode": "whole"}), ("first_packet_id", 0), ("chunk_gap", 0.0), ("fates", [])):
        if key in k and k[key] != val:
            simpl.append(lambda c, key=key, val=val: dict(c, knobs=dict(c.get("knobs", {}), **{key: val})))
    for f in simpl:
        cand = f(cur)
        if fails(cand):
            cur = cand
    # 3. per-step simplification
    tl = cur.get("timeline", [])
    for i, st in enumerate(tl):
        if st.get("yields"):
            cand_tl = list(tl)
            cand_tl[i] = {kk: vv for kk, vv in st.items() if kk != "yields"}
            cand = dict(cur, timeline=cand_tl)
            if fails(cand):
                cur, tl = cand, cand_tl
    # 4. property-specific shrinking
    shr = getattr(mod, "shrink", None)
    if shr is not None:
        progress = True
        while progress and calls[0] < budget:
            progress = False
            for cand in shr(cur):
                if fails(cand):
                    cur = cand
                    progress = True
                    break
    cur["minimise_calls"] = calls[0]
    return cur


# ----------------------------------------------------------------------------- main entry
def main(mod, argv=None) -> int:
    import argparse

    ap = argparse.ArgumentParser(prog=f"check {mod.ID}")
    ap.add_argument("--tier", default=os.environ.get("VERIF_TIER", "quick"), choices=["quick", "thorough"])
    ap.add_argument("--replay")
    ap.add_argument("--seed", type=int)
    ap.add_argument("--runs", type=int)
    ap.add_argument("--workers", type=int, default=min(16, os.cpu_count() or 1))
    ap.add_argument("--digests", help="comma separated run indices: print their digests and exit (self-test b)")
    ap.add_argument("--no-selftest-b", action="store_true")
    ap.add_argument("--index", type=int, help="run one generated index verbosely")
    args = ap.parse_args(argv)
    vseed = args.seed if args.seed is not None else verif_seed()

    if args.replay:
        return replay(mod, args.replay)
    if args.digests is not None:
        out = {}
        for s in args.digests.split(","):
            if s:
                sc = scenario_for(mod, vseed, int(s), args.tier)
                out[s] = mod.execute(sc)["digest"]
        print(json.dumps(out))
        return 0
    if args.index is not None:
        sc = scenario_for(mod, vseed, args.index, args.tier)
        res = mod.execute(sc)
        print(json.dumps(sc, indent=1, default=str))
        print(json.dumps({k: v for k, v in res.items() if k != "world"}, indent=1, default=str))
        return 1 if res["violations"] else 0

    t0 = time.time()
    n = args.runs if args.runs is not None else mod.budget(args.tier)
    workers = max(1, args.workers)
    has_enum = hasattr(mod, "enumerated")
    chunk = max(1, min(500, (n + workers * 4 - 1) // (workers * 4)))
    tasks = []
    for lo in range(0, n, chunk):
        tasks.append((mod.__name__, vseed, list(range(lo, min(n, lo + chunk))), args.tier, None))
    if has_enum:
        for w in range(workers):
            tasks.append((mod.__name__, vseed, [], args.tier, (w, None, workers)))
    agg = {"evals": 0, "runs": 0, "faults": {}, "probes": {}, "sim_seconds": 0.0, "steps": 0, "shapes": set(),
           "violations": [], "selfcheck_a": 0, "selfcheck_a_fail": [], "samples": [], "digests": {}, "cross": {}, "sets": {}}
    harness_errors = []
    ctx = multiprocessing.get_context("fork")
    deadline = 3000 if args.tier == "quick" else 6 * 3600
    if workers == 1:
        results = map(_worker, tasks)
        _consume(results, agg, harness_errors)
    else:
        with cf.ProcessPoolExecutor(max_workers=workers, mp_context=ctx) as ex:
            futs = [ex.submit(_worker, t) for t in tasks]
            try:
                res_iter = (f.result(timeout=max(1, deadline - (time.time() - t0))) for f in futs)
                _consume(res_iter, agg, harness_errors)
            except (cf.TimeoutError, cf.process.BrokenProcessPool) as exc:
                harness_errors.append(f"worker pool: {type(exc).__name__} {exc}")
                for p in list(getattr(ex, "_processes", {}).values()):
                    try:
                        p.kill()
                    except Exception:  # noqa: BLE001
                        pass

    # determinism self-test (b): fresh interpreter, other hash seed, one worker
    selftest_b = {"checked": 0, "mismatch": []}
    if not args.no_selftest_b and not harness_errors and agg["digests"]:
        want = 64 if args.tier == "quick" else 256
        idxs = sorted(agg["digests"])[:want]
        env = dict(os.environ, PYTHONHASHSEED="12345", VERIF_SEED=str(vseed), VERIF_NO_REEXEC="1")
        cmd = [sys.executable, os.path.join(ROOT, "check"), mod.ID, "--tier", args.tier, "--digests", ",".join(map(str, idxs))]
        try:
            out = subprocess.run(cmd, env=env, capture_output=True, text=True, timeout=1200, cwd=ROOT)
            got = json.loads(out.stdout.strip().splitlines()[-1])
            for i in idxs:
                selftest_b["checked"] += 1
                if got.get(str(i)) != agg["digests"][i]:
                    selftest_b["mismatch"].append(i)
        except Exception as exc:  # noqa: BLE001
            harness_errors.append(f"selftest b failed to run: {type(exc).__name__}: {exc}")
    if agg["selfcheck_a_fail"]:
        harness_errors.append(f"determinism self-test (a) failed for run indices {agg['selfcheck_a_fail'][:10]}")
    if selftest_b["mismatch"]:
        harness_errors.append(f"determinism self-test (b) failed for run indices {selftest_b['mismatch'][:10]}")

    # triage violations
    known = load_known()
    by_class = {}
    for item in agg["violations"]:
        v = item["violation"]
        key = (v["rule"], json.dumps(v.get("sig", {}), sort_keys=True))
        by_class.setdefault(key, []).append(item)
    reported = []
    known_hits = []
    os.makedirs(REPLAY_DIR, exist_ok=True)
    for (rule, _sigs), items in sorted(by_class.items()):
        item = items[0]
        v = item["violation"]
        k = match_known(known, mod.ID, v)
        if k is not None:
            known_hits.append((k, len(items)))
            continue
        sc = item["scenario"]
        mini = minimise(mod, sc, rule, v.get("sig"), budget=200 if args.tier == "quick" else 500)
        res = mod.execute(mini)
        vv = [x for x in res["violations"] if x["rule"] == rule] or [v]
        mini["expect"] = {"violation": vv[0], "event_log_sha256": res["digest"]}
        tag = sc.get("run_index", sc.get("enumerated_index", "e"))
        path = os.path.join(REPLAY_DIR, f"{mod.ID}-{vseed}-{tag}-{rule.replace('.', '_')}.json")
        with open(path, "w") as f:
            json.dump(mini, f, indent=1, default=str)
        reported.append((rule, path, vv[0], len(items)))
        # the minimised file must reproduce the violation, exactly, in a fresh interpreter
        if len(reported) <= 3:
            try:
                env = dict(os.environ, PYTHONHASHSEED="777", VERIF_NO_REEXEC="1")
                out = subprocess.run([sys.executable, os.path.join(ROOT, "check"), mod.ID, "--replay", path], env=env, capture_output=True, text=True, timeout=600, cwd=ROOT)
                if out.returncode != 1 or "digest matches" not in out.stdout or f"rule={rule}" not in out.stdout:
                    harness_errors.append(f"replay of {path} in a fresh interpreter did not reproduce the violation exactly (rc={out.returncode}): {out.stdout[-300:]}")
            except Exception as exc:  # noqa: BLE001
                harness_errors.append(f"replay of {path} failed to run: {exc!r}")

    wall = time.time() - t0
    shapes = agg["shapes"]
    coverage = {
        "evaluations": agg["evals"],
        "distinct_nontrivial": len(shapes),
        "rule": mod.RULE,
        "samples": agg["samples"][:3] or [{"note": "no sample captured"}],
        "runs": agg["runs"],
        "runs_per_hour": int(agg["runs"] / wall * 3600) if wall > 0 else 0,
        "sim_seconds": round(agg["sim_seconds"], 3),
        "loop_steps": agg["steps"],
        "faults_fired": dict(sorted(agg["faults"].items())),
        "probes": dict(sorted(agg["probes"].items())),
        "probes_stuck_at_zero": sorted(p for p in getattr(mod, "PROBES", []) if not agg["probes"].get(p)),
        "components": mod.COMPONENTS,
        "determinism_selftests": {
            "a_same_process_twice": {"checked": agg["selfcheck_a"], "failed": len(agg["selfcheck_a_fail"])},
            "b_fresh_interpreter_other_hashseed": {"checked": selftest_b["checked"], "failed": len(selftest_b["mismatch"])},
        },
        "cross_property_observations": dict(sorted(agg["cross"].items())),
        "distinct_values_reached": {k: len(v) for k, v in sorted(agg["sets"].items())},
        "known_findings_observed": [{"what": k["what"], "count": c} for k, c in known_hits],
        "violation_classes": [{"rule": r, "replay": p, "count": c} for r, p, _v, c in reported],
        "workers": workers,
        "exhaustive": bool(getattr(mod, "EXHAUSTIVE", False)) and args.tier == "thorough",
        "trusted_base": getattr(mod, "TRUSTED_BASE", []),
    }
    if hasattr(mod, "extra_coverage"):
        coverage.update(mod.extra_coverage(agg, args.tier))
    evidence = {
        "property_id": mod.ID,
        "tier": args.tier,
        "seed": vseed,
        "level": mod.LEVEL,
        "coverage": coverage,
        "assumptions": mod.ASSUMPTIONS,
        "wall_s": round(wall, 2),
        "violations": len(reported),
    }
    if harness_errors:
        evidence["coverage"]["harness_errors"] = harness_errors
    os.makedirs(EVIDENCE_DIR, exist_ok=True)
    if not harness_errors:
        _validate_evidence(evidence, harness_errors)
    with open(os.path.join(EVIDENCE_DIR, f"{mod.ID}.json"), "w") as f:
        json.dump(evidence, f, indent=1, default=str)
        f.write("\n")
    if args.tier == "thorough" and not getattr(args, "runs", None):
        # the last full thorough run is kept next to the (per run rewritten) evidence file
        tdir = os.path.join(ROOT, "evidence_thorough")
        os.makedirs(tdir, exist_ok=True)
        with open(os.path.join(tdir, f"{mod.ID}.json"), "w") as f:
            json.dump(evidence, f, indent=1, default=str)
            f.write("\n")

    for k, c in known_hits:
        print(f"KNOWN-FINDING: property={mod.ID} {k['what']} (observed {c}x)")
    for p in coverage["probes_stuck_at_zero"]:
        print(f"warning: probe {p} stuck at 0", file=sys.stderr)
    print(
        f"{mod.ID} tier={args.tier} seed={vseed} runs={agg['runs']} evals={agg['evals']} shapes={len(shapes)} "
        f"sim_s={agg['sim_seconds']:.0f} wall={wall:.1f}s faults={sum(agg['faults'].values())} "
        f"violations={len(reported)} known={len(known_hits)}"
    )
    if harness_errors:
        for e in harness_errors:
            print(f"HARNESS-ERROR: {e}")
        return 2
    if reported:
        for rule, path, v, c in reported:
            print(f"VIOLATION property={mod.ID} replay={path}")
            print(f"  rule={rule} count={c} detail={json.dumps(v.get('detail'), default=str)[:600]}")
        return 1
    return 0


def _consume(results, agg, harness_errors) -> None:
    for r in results:
        if "harness_error" in r:
            harness_errors.append(r["harness_error"] + "\n" + r.get("traceback", ""))
            continue
        agg["evals"] += r["evals"]
        agg["runs"] += r["runs"]
        _merge(agg["faults"], r["faults"])
        _merge(agg["probes"], r["probes"])
        _merge(agg["cross"], r["cross"])
        agg["sim_seconds"] += r["sim_seconds"]
        agg["steps"] += r["steps"]
        agg["shapes"].update(r["shapes"])
        agg["violations"].extend(r["violations"])
        agg["selfcheck_a"] += r["selfcheck_a"]
        agg["selfcheck_a_fail"].extend(r["selfcheck_a_fail"])
        if len(agg["samples"]) < 3:
            agg["samples"].extend(r["samples"])
        agg["digests"].update(r["digests"])
        for k, vals in r.get("sets", {}).items():
            agg["sets"].setdefault(k, set()).update(vals)


def _validate_evidence(evidence: dict, harness_errors: list) -> None:
    c = evidence["coverage"]
    if c["evaluations"] < 1 or not c["samples"]:
        harness_errors.append("evidence would be invalid: no evaluations")
    if c["distinct_nontrivial"] < 2:
        harness_errors.append(f"evidence would be invalid: distinct_nontrivial={c['distinct_nontrivial']}")


def replay(mod, path: str) -> int:
    with open(path) as f:
        sc = json.load(f)
    res = mod.execute(sc)
    exp = sc.get("expect", {})
    same = exp.get("event_log_sha256") == res["digest"]
    print(f"replay {path}: events digest {'matches' if same else 'differs from'} the recorded one")
    known = load_known()
    rc = 0
    for v in res["violations"]:
        k = match_known(known, mod.ID, v)
        if k is not None:
            print(f"KNOWN-FINDING: property={mod.ID} {k['what']}")
            continue
        print(f"VIOLATION property={mod.ID} replay={path}")
        print(f"  rule={v['rule']} detail={json.dumps(v.get('detail'), default=str)[:800]}")
        rc = 1
    if not res["violations"]:
        print("no violation on replay")
    return rc
