"""Scenario generation helpers: installations, states, instants (all from the run's PRNG)."""

from __future__ import annotations

from ref import wire4, wire5

TICK = 2.0**-10
EPS = 2.0**-20

ASCII_NAMES = ["Living", "Kitchen", "Bed 1", "Bed 2", "Study", "Bath", "Hall", "Garage", "Z", "", "Upstairs", "Rumpus"]
UTF8_NAMES = ["Café", "客厅", "Küche", "Ñ", "☃x", "Niños"]
AC_NAMES = ["UNIT", "Daikin", "Upstairs AC", "AC°", "", "SixteenBytesLong", "空调", "A"]


def dyadic(rng, lo: float, hi: float) -> float:
    """A multiple of 2^-10 in [lo, hi]."""
    a = int(lo / TICK)
    b = int(hi / TICK)
    return rng.randint(a, max(a, b)) * TICK


def pick_time(rng, lo: float, hi: float, anchors=()) -> float:
    """An instant in [lo, hi], biased towards anchors (+-EPS, exact)."""
    cands = [a + d for a in anchors for d in (-EPS, 0.0, EPS, -TICK, TICK) if lo <= a + d <= hi]
    if cands and rng.random() < 0.5:
        return rng.choice(cands)
    return dyadic(rng, lo, hi)


def fit_utf8(s: str, nbytes: int) -> str:
    while len(s.encode("utf-8")) > nbytes:
        s = s[:-1]
    return s


def name(rng, nbytes: int, pool=None) -> str:
    pool = pool or (ASCII_NAMES + UTF8_NAMES)
    s = rng.choice(pool)
    if rng.random() < 0.15:
        s = s + rng.choice(["", " 2", "-X", "é"]) * rng.randint(1, 3)
    if rng.random() < 0.1:
        s = (s + "abcdefghijklmnopqrstuvwxyz")[: nbytes]
    return fit_utf8(s, nbytes)


def subset(rng, items, p_all=0.4, min_n=0):
    if rng.random() < p_all:
        return list(items)
    out = [x for x in items if rng.random() < 0.6]
    while len(out) < min_n:
        x = rng.choice(items)
        if x not in out:
            out.append(x)
    return [x for x in items if x in out]


def installation(rng, gen: int, *, max_acs: int = 4, max_zones: int = 16, allow_zero_zones: bool = True,
                 state: bool = True) -> dict:
    n_acs = rng.choice([1, 1, 1, 2, 2, 3, 4])
    n_acs = min(n_acs, max_acs)
    nz_lo = 0 if allow_zero_zones else 1
    n_zones = rng.choice([nz_lo, 1, 2, 2, 3, 4, 5, 8, 12, 16])
    n_zones = max(nz_lo, min(n_zones, max_zones))
    if gen == 4:
        inst = _inst4(rng, n_acs, n_zones)
    else:
        inst = _inst5(rng, n_acs, n_zones)
    sep = "|" if gen == 4 else ","
    inst["versions"] = rng.choice([["1.3.3"], ["1.3.3", "1.3.3"], ["1.0.5", "1.2.3"], ["12.34.56"]])
    inst["versions"] = [v.replace(sep, ".") for v in inst["versions"]]
    inst["update"] = rng.random() < 0.3
    if state:
        for a in inst["acs"]:
            a["state"] = ac_state(rng, gen)
            a["timer"] = {"on": timer(rng), "off": timer(rng)}
            if a["state"]["error"]:
                a["errtext"] = rng.choice(["ER: FFFE", "E5", None, "Fehler ü"])
        for z in inst["zones"]:
            z["state"] = zone_state(rng, gen)
    return inst


def _inst4(rng, n_acs: int, n_zones: int) -> dict:
    fmt = rng.choice(["bitmap", "bitmap", "bitmap", "range", "single"])
    if fmt == "single":
        n_acs = 1
    if rng.random() < 0.7 or fmt == "range":
        zone_ids = list(range(n_zones))
    else:
        zone_ids = sorted(rng.sample(range(16), n_zones))
    ac_ids = list(range(n_acs)) if rng.random() < 0.8 else sorted(rng.sample(range(4), n_acs))
    acs = []
    # partition
    owner = {}
    if fmt == "bitmap":
        for z in zone_ids:
            r = rng.random()
            if r < 0.9:
                owner[z] = rng.choice(ac_ids)
            # else: hidden for every AC
    cuts = sorted(rng.randint(0, n_zones) for _ in range(n_acs - 1)) if n_acs > 1 else []
    bounds = [0] + cuts + [n_zones]
    for i, ac in enumerate(ac_ids):
        a = {
            "ac": ac,
            "name": name(rng, 16, AC_NAMES),
            "modes": subset(rng, wire4.MODE_BITS),
            "fans": subset(rng, wire4.FAN_BITS),
            "min_sp": rng.randint(10, 20),
            "max_sp": rng.randint(25, 35),
            "start_group": 0,
            "group_count": 0,
            "groups": None,
        }
        if fmt == "bitmap":
            a["groups"] = [z for z in zone_ids if owner.get(z) == ac]
            # start/count are "nonsense" on new consoles: anything
            a["start_group"] = rng.randint(0, 15)
            a["group_count"] = rng.randint(0, 16)
        elif fmt == "range":
            a["start_group"] = bounds[i]
            a["group_count"] = bounds[i + 1] - bounds[i]
        else:
            a["start_group"] = rng.choice([0, 0, 3])
            a["group_count"] = rng.choice([0, n_zones, 1])
        acs.append(a)
    zones = [{"zone": z, "name": name(rng, 8)} for z in zone_ids]
    return {"gen": 4, "acs": acs, "zones": zones, "ability_format": fmt}


def _inst5(rng, n_acs: int, n_zones: int) -> dict:
    ac_ids = list(range(n_acs)) if rng.random() < 0.8 else sorted(rng.sample(range(16), n_acs))
    cuts = sorted(rng.randint(0, n_zones) for _ in range(n_acs - 1)) if n_acs > 1 else []
    bounds = [0] + cuts + [n_zones]
    ranges = [(bounds[i], bounds[i + 1] - bounds[i]) for i in range(n_acs)]
    r = rng.random()
    if n_acs > 1 and r < 0.3:
        rng.shuffle(ranges)  # the AC with the lower number need not own the lower zone numbers
    elif r < 0.4 and n_zones > 1:
        # zones that belong to no AC: a range that starts late or ends early
        i = rng.randrange(n_acs)
        st, cnt = ranges[i]
        if cnt > 1:
            ranges[i] = (st + 1, cnt - 1) if rng.random() < 0.5 else (st, cnt - 1)
    acs = []
    for i, ac in enumerate(ac_ids):
        lo_c, lo_h = rng.randint(10, 20), rng.randint(10, 20)
        acs.append({
            "ac": ac,
            "name": name(rng, 16, AC_NAMES),
            "modes": subset(rng, wire5.MODE_BITS),
            "fans": subset(rng, wire5.FAN_BITS),
            "min_cool": lo_c, "max_cool": rng.randint(25, 35),
            "min_heat": lo_h, "max_heat": rng.randint(25, 35),
            "start_zone": ranges[i][0], "zone_count": ranges[i][1],
        })
    zones = [{"zone": z, "name": name(rng, 24)} for z in range(n_zones)]
    if rng.random() < 0.2:
        rng.shuffle(acs)  # the order of the records in the ability answer (and in status frames) is the console's business
    if rng.random() < 0.15:
        rng.shuffle(zones)  # ... as is the order of the names
    return {
        "gen": 5, "acs": acs, "zones": zones,
        "ac_stride": rng.choice([8, 10, 10, 10, 12, 16]),
        "zone_stride": rng.choice([8, 8, 8, 10, 12]),
        "timer_stride": rng.choice([9, 9, 9, 10, 13]),
        "zero_zone_echo": True,
    }


def temperature(rng) -> float:
    r = rng.random()
    if r < 0.1:
        return (rng.choice([500, 0, 2000, 499, 501, 1499]) - 500) / 10
    if r < 0.3:
        return (rng.randint(0, 2000) - 500) / 10  # anywhere in the documented range (-50.0 .. 150.0)
    return (rng.randint(400, 1100) - 500) / 10


def timer(rng) -> dict:
    if rng.random() < 0.08:
        return {"disabled": rng.random() < 0.5, "hour": 0, "minute": 0}  # midnight: the value an unprogrammed timer holds
    return {"disabled": rng.random() < 0.5, "hour": rng.randint(0, 23), "minute": rng.randint(0, 59)}


def ac_state(rng, gen: int) -> dict:
    if gen == 4:
        return {
            "power": rng.choice(["off", "on"]),
            "mode": rng.choice(list(wire4.MODE_STATUS.values())),
            "fan": rng.choice(list(wire4.FAN.values())),
            "spill": rng.random() < 0.3,
            "timer": rng.random() < 0.3,
            "setpoint": rng.randint(0, 63) if rng.random() < 0.2 else rng.randint(14, 32),
            "temp": temperature(rng),
            "error": rng.choice([0, 0, 0, 1, 0xFFFE, 0x1234]),
        }
    return {
        "power": rng.choice(list(wire5.POWER_STATUS.values())),
        "mode": rng.choice(list(wire5.MODE_STATUS.values())),
        "fan": rng.choice(list(wire5.FAN_STATUS.values())),
        "setpoint": (rng.randint(0, 250) + 100) / 10 if rng.random() < 0.3 else float(rng.randint(14, 32)),
        "turbo": rng.random() < 0.3,
        "bypass": rng.random() < 0.3,
        "spill": rng.random() < 0.3,
        "timer": rng.random() < 0.3,
        "temp": temperature(rng),
        "error": rng.choice([0, 0, 0, 1, 0xFFFE, 0x1234]),
    }


def zone_state(rng, gen: int) -> dict:
    sensor = rng.random() < 0.6
    if gen == 4:
        return {
            "power": rng.choice(["off", "on", "turbo"]),
            "method": rng.choice(["damper", "temperature"]),
            "percent": rng.choice([0, 5, 50, 100, rng.randint(0, 100)]),
            "battery_low": rng.random() < 0.2,
            "turbo_support": rng.random() < 0.4,
            "setpoint": rng.randint(14, 32) if sensor else rng.choice([0, 0, 25]),
            "sensor": sensor,
            "temp": temperature(rng) if sensor and rng.random() < 0.9 else None,
            "spill": rng.random() < 0.2,
        }
    return {
        "power": rng.choice(["off", "on", "turbo"]),
        "method": rng.choice(["damper", "temperature"]),
        "percent": rng.choice([0, 5, 50, 100, rng.randint(0, 100)]),
        "setpoint": ((rng.randint(0, 250) + 100) / 10 if rng.random() < 0.3 else float(rng.randint(14, 32))) if (sensor or rng.random() < 0.3) else None,
        "sensor": sensor,
        "temp": temperature(rng) if sensor and rng.random() < 0.9 else None,
        "spill": rng.random() < 0.2,
        "battery_low": rng.random() < 0.2,
    }


def knobs(rng, *, faults: bool = False) -> dict:
    k = {
        "latency": rng.choice([0.0, TICK, 2.0**-7, 2.0**-7, 2.0**-5, 2.0**-4]),
        "first_packet_id": rng.choice([0, 0, 250, 253, 255, rng.randint(0, 255)]),
        "seg": rng.choice([{"mode": "whole"}, {"mode": "whole"}, {"mode": "random", "seed": rng.getrandbits(16), "max": rng.choice([1, 3, 8])},
                           {"mode": "bytes"}]),
        "chunk_gap": rng.choice([0.0, 0.0, TICK]),
    }
    return k
