"""Generator of well-formed console -> client frames (defined field values only)."""

from __future__ import annotations

from ref import wire4, wire5

from . import gen as G

KINDS4 = ["group_status", "ac_status", "timer_status", "ability", "names", "version", "error_info"]
KINDS5 = ["zone_status", "ac_status", "timer_status", "ability", "names", "version", "error_info"]
REQ4 = ["group_status_request", "ac_status_request", "timer_status_request", "ability_request", "names_request", "version_request", "error_info_request"]
CTRL = ["ac_control", "zone_control", "quick_timer", "timer_control"]


def text(rng, nbytes: int) -> str:
    s = rng.choice(["1.3.3", "ER: FFFE", "E5", "Fehler ü", "客厅故障", "x", "AB|CD", "a,b", "1.0.3,1.0.4"])
    return G.fit_utf8(s, nbytes)


def frame(rng, gen: int, kind: str | None = None, pid: int | None = None) -> tuple[bytes, str]:
    """(raw frame, kind).  Kinds: the status/answer kinds a console sends."""
    if pid is None:
        pid = rng.randrange(256)
    if gen == 4:
        w = wire4
        kind = kind or rng.choice(KINDS4)
        if kind == "group_status":
            n = rng.choice([1, 1, 2, 3, 8, 16])
            ids = sorted(rng.sample(range(16), n))
            recs = b"".join(w.enc_group_status_record(dict(G.zone_state(rng, 4), group=i)) for i in ids)
            return w.f_status(pid, w.T_GROUP_STATUS, recs), kind
        if kind == "ac_status":
            n = rng.choice([1, 1, 2, 4])
            ids = sorted(rng.sample(range(4), n))
            recs = b"".join(w.enc_ac_status_record(dict(G.ac_state(rng, 4), ac=i)) for i in ids)
            return w.f_status(pid, w.T_AC_STATUS, recs), kind
        if kind == "timer_status":
            return w.f_status(pid, w.T_TIMER_STATUS, w.enc_timer_records({i: {"on": G.timer(rng), "off": G.timer(rng)} for i in range(4)})), kind
        if kind == "ability":
            inst = G.installation(rng, 4, allow_zero_zones=False, state=False)
            if rng.random() < 0.4:
                # console versions may differ per record: each record announces its own following length
                body = b"".join(w.enc_ability_record(dict(a, groups=a["groups"] or []), with_bitmap=rng.random() < 0.5) for a in inst["acs"])
            else:
                body = b"".join(w.enc_ability_record(a, with_bitmap=inst["ability_format"] == "bitmap") for a in inst["acs"])
            return w.f_ext(pid, w.X_ABILITY, body), kind
        if kind == "names":
            n = rng.choice([1, 2, 5, 16])
            ids = sorted(rng.sample(range(16), n))
            return w.f_ext(pid, w.X_NAMES, w.enc_names({i: G.name(rng, 8) for i in ids})), kind
        if kind == "version":
            vs = rng.choice([["1.3.3"], ["1.3.3", "1.3.3"], ["10.20.30", "1.0.5"]])
            return w.f_ext(pid, w.X_VERSION, w.enc_version(rng.random() < 0.5, vs, "|")), kind
        if kind == "error_info":
            t = rng.choice([None, text(rng, 40)])
            b = t.encode() if t else b""
            return w.f_ext(pid, w.X_ERR, bytes((rng.randint(0, 3), len(b))) + b), kind
    else:
        w = wire5
        kind = kind or rng.choice(KINDS5)
        if kind == "zone_status":
            n = rng.choice([1, 1, 2, 3, 8, 16])
            ids = sorted(rng.sample(range(16), n))
            stride = rng.choice([8, 8, 8, 9, 12])
            return w.f_cs(pid, w.S_ZONE_STATUS, [w.enc_zone_status_record(dict(G.zone_state(rng, 5), zone=i), stride) for i in ids], rlen=stride), kind
        if kind == "ac_status":
            n = rng.choice([1, 1, 2, 4, 8])
            ids = sorted(rng.sample(range(16), n))
            stride = rng.choice([8, 10, 10, 12])
            return w.f_cs(pid, w.S_AC_STATUS, [w.enc_ac_status_record(dict(G.ac_state(rng, 5), ac=i), stride, b4_hi=rng.choice([0xC0, 0x00])) for i in ids], rlen=stride), kind
        if kind == "timer_status":
            n = rng.choice([1, 2, 4])
            ids = sorted(rng.sample(range(16), n))
            stride = rng.choice([9, 9, 10, 13])
            return w.f_cs(pid, w.S_TIMER_STATUS, [w.enc_timer_record({"ac": i, "on": G.timer(rng), "off": G.timer(rng)}, stride) for i in ids], rlen=stride), kind
        if kind == "ability":
            inst = G.installation(rng, 5, state=False)
            return w.f_ext(pid, w.X_ABILITY, b"".join(w.enc_ability_record(a) for a in inst["acs"])), kind
        if kind == "names":
            n = rng.choice([1, 2, 5, 16])
            ids = sorted(rng.sample(range(16), n))
            return w.f_ext(pid, w.X_NAMES, w.enc_names({i: G.name(rng, 24) for i in ids})), kind
        if kind == "version":
            vs = rng.choice([["1.0.3"], ["1.0.3", "1.0.3"], ["10.20.30", "1.0.5"]])
            return w.f_ext(pid, w.X_VERSION, wire4.enc_version(rng.random() < 0.5, vs, ",")), kind
        if kind == "error_info":
            t = rng.choice([None, text(rng, 40)])
            b = t.encode() if t else b""
            return w.f_ext(pid, w.X_ERR, bytes((rng.randint(0, 15), len(b))) + b), kind
    raise ValueError(kind)


def unknown_frame(rng, gen: int, pid: int | None = None) -> tuple[bytes, str]:
    """A well-formed frame of a type / sub-type the protocol documents do not define."""
    if pid is None:
        pid = rng.randrange(256)
    w = wire4 if gen == 4 else wire5
    known = {0x1F, 0x2A, 0x2B, 0x2C, 0x2D, 0x36, 0x37} if gen == 4 else {0x1F, 0xC0}
    r = rng.random()
    payload = bytes(rng.randrange(256) for _ in range(rng.choice([0, 1, 2, 7, 30])))
    if r < 0.5:
        t = rng.choice([x for x in range(256) if x not in known])
        return w.frame(w.ADDR_CLIENT, w.ADDR_CONSOLE, pid, t, payload), "unknown"
    if r < 0.8 or gen == 4:
        known_sub = {0xFF10, 0xFF11, 0xFF12, 0xFF20, 0xFF30} if gen == 4 else {0xFF10, 0xFF11, 0xFF13, 0xFF30, 0xFF49}
        sub = rng.choice([s for s in (0xFF00, 0xFF14, 0xFF21, 0xFF31, 0xFF48, 0xFE11, 0x0000, 0xFFFF, rng.randrange(65536)) if s not in known_sub])
        return w.f_ext(pid, sub, payload), "ext_unknown"
    sub = rng.choice([x for x in range(256) if x not in (0x20, 0x21, 0x22, 0x23, 0x32, 0x33)])
    nrm = bytes(rng.randrange(256) for _ in range(rng.choice([0, 0, 3])))
    rl = rng.choice([0, 1, 4, 8])
    rc = rng.choice([0, 1, 3]) if rl else 0
    recs = [bytes(rng.randrange(256) for _ in range(rl)) for _ in range(rc)]
    return w.f_cs(pid, sub, recs, rlen=rl, normal=nrm), "cs_unknown"


LONG_SIZES = (255, 256, 600, 1017, 1018, 1019, 1022, 1023, 1024, 1025, 1500, 2046, 2047, 2600, 4096, 9000)
HUGE_SIZES = (4097, 16383, 16384, 32767, 32768, 40000, 65000, 65523)  # around the sign bit / top of the 16-bit length field (AT5: 65523 is the maximum)


def long_frame(rng, gen: int, pid: int | None = None, size: int | None = None) -> tuple[bytes, str]:
    """A well-formed frame far longer than anything a real console sends (the length field is 16 bits wide)."""
    if pid is None:
        pid = rng.randrange(256)
    if size is None:
        size = rng.choice(LONG_SIZES)
    w = wire4 if gen == 4 else wire5
    known = {0x1F, 0x2A, 0x2B, 0x2C, 0x2D, 0x36, 0x37} if gen == 4 else {0x1F, 0xC0}
    if rng.random() < 0.6:
        t = rng.choice([x for x in range(256) if x not in known])
        return w.frame(w.ADDR_CLIENT, w.ADDR_CONSOLE, pid, t, bytes(rng.randrange(256) for _ in range(size))), "unknown"
    sub = rng.choice([0xFF00, 0xFF14, 0xFF21, 0xFE11])
    return w.f_ext(pid, sub, bytes(rng.randrange(256) for _ in range(max(0, size - 2)))), "ext_unknown"


FOREIGN_ADDRS = (0x00, 0x01, 0x55, 0x55, 0x7F, 0x81, 0x8F, 0x91, 0xA0, 0xAA, 0xAA, 0xAB, 0xB1, 0xB2, 0xBF, 0xC0, 0xFF)  # incl. the bytes the frame prefixes are made of


def foreign_address_frame(rng, gen: int) -> tuple[bytes, str]:
    """A well-formed frame of an ordinary kind whose to / from address is not one of 0x80 / 0x90 / 0xB0: traffic between
    the console and another client, seen on the same link. The socket layer delivers it like any other frame (the API
    classes filter by address)."""
    w = wire4 if gen == 4 else wire5
    raw, kind = frame(rng, gen)
    frs, verdict, _ = w.parse_stream(raw)
    fr = frs[0]
    to, frm = fr["to"], fr["frm"]
    which = rng.choice(["to", "from", "both"])
    if which in ("to", "both"):
        to = rng.choice(FOREIGN_ADDRS)
    if which in ("from", "both"):
        frm = rng.choice(FOREIGN_ADDRS)
    return w.frame(to, frm, fr["pid"], fr["type"], fr["data"]), kind


def maximal_frame(rng, gen: int, pid: int | None = None) -> tuple[bytes, str]:
    """A console frame of a defined kind at (or near) the largest size its layout allows: error text and version strings up
    to the 255 bytes their length byte can announce, sixteen long names, an ability answer for many air-conditioners."""
    if pid is None:
        pid = rng.randrange(256)
    w = wire4 if gen == 4 else wire5
    kind = rng.choice(["error_info", "version", "names", "ability"])
    if kind == "error_info":
        n = rng.choice([200, 250, 253, 254, 255])
        base = rng.choice(["E", "ER: FFFE ", "Fehler ü ", "客厅故障"])
        t = G.fit_utf8(base * 300, n)
        b = t.encode()
        return w.f_ext(pid, w.X_ERR, bytes((rng.randint(0, 3), len(b))) + b), kind
    if kind == "version":
        sep = "|" if gen == 4 else ","
        n = rng.choice([200, 250, 253, 254, 255])
        vs = []
        while True:
            v = rng.choice(["10.20.30", "1.0.3", "255.255.255"])
            if len(sep.join(vs + [v]).encode()) > n:
                break
            vs.append(v)
        return w.f_ext(pid, w.X_VERSION, wire4.enc_version(rng.random() < 0.5, vs, sep)), kind
    if kind == "names":
        if gen == 4:
            return w.f_ext(pid, w.X_NAMES, w.enc_names({i: G.fit_utf8(rng.choice(["Bedroom12", "Küche-OG", "居間居間居", "ABCDEFGH"]), 8) for i in range(16)})), kind
        width = rng.choice([16, 20, 24])
        return w.f_ext(pid, w.X_NAMES, w.enc_names({i: G.fit_utf8(rng.choice(["Sixteen Bytes Name Here!", "Küche im Obergeschoss links", "居間居間居間居間居間"]), width) for i in range(16)})), kind
    # ability
    if gen == 4:
        inst = G.installation(rng, 4, allow_zero_zones=False, state=False)
        return w.f_ext(pid, w.X_ABILITY, b"".join(w.enc_ability_record(dict(a, groups=list(range(16))), with_bitmap=True) for a in inst["acs"])), kind
    n = rng.choice([8, 9, 10, 12, 16])
    recs = []
    for i in range(n):
        a = G.installation(rng, 5, state=False)["acs"][0]
        recs.append(w.enc_ability_record(dict(a, ac=i)))
    return w.f_ext(pid, w.X_ABILITY, b"".join(recs)), kind
