#!/bin/bash
# usage: seedsweep.sh <first> <last> [tier]   - runs every check for each VERIF_SEED, prints non-zero exits
cd "$(dirname "$0")/.."
tier=${3:-quick}
for seed in $(seq $1 $2); do
  for id in $(/venv/bin/python -c "import json;print(' '.join(c['property_id'] for c in json.load(open('MANIFEST.json'))['checks']))"); do
    out=$(VERIF_SEED=$seed timeout 7200 ./check $id --tier $tier 2>&1); code=$?
    line=$(echo "$out" | grep -E "^$id tier" | tail -1)
    echo "seed=$seed $id exit=$code $line"
    if [ $code -ne 0 ]; then echo "$out" | grep -E "VIOLATION|HARNESS-ERROR|rule=" | head -6; fi
  done
done
