#!/bin/bash
# usage: reseed.sh [pattern]  - re-applies every stored seeded change (seeded/<id>/patch.diff) to a scratch worktree of /repo
# and re-runs the quick check named in its meta.json; prints one line per change and a summary. Expected: exit 1 for all
# but the documented non-detection(s) (meta.json detected_by.exit == 0).
cd "$(dirname "$0")/.."
W=/tmp/wt-reseed
git -C /repo worktree remove --force $W 2>/dev/null
git -C /repo worktree add -q --detach $W HEAD || exit 2
bad=0; n=0
for d in seeded/${1:-*}/; do
  id=$(basename $d)
  [ -f $d/patch.diff ] || continue
  chk=$(/venv/bin/python -c "import json,sys;m=json.load(open('$d/meta.json'));print(m['detected_by']['check'].split()[1], m['detected_by'].get('exit',1))")
  set -- $chk; prop=$1; want=$2
  git -C $W checkout -q -- . ; git -C $W apply $PWD/$d/patch.diff || { echo "$id APPLY-FAILED"; bad=$((bad+1)); continue; }
  out=$(PYAIRTOUCH_SRC=$W VERIF_CANARY=1 timeout 3000 ./check $prop --tier quick --no-selftest-b 2>&1); code=$?
  rules=$(echo "$out" | grep -oE "rule=[A-Za-z0-9_.]+" | sort -u | tr '\n' ' ')
  ok=ok; [ "$code" != "$want" ] && { ok=UNEXPECTED; bad=$((bad+1)); }
  n=$((n+1))
  echo "$id check=$prop exit=$code want=$want $ok $rules"
done
git -C /repo worktree remove --force $W; git -C /repo worktree prune
git checkout -q -- evidence 2>/dev/null
echo "reseed: $n changes, $bad unexpected"
