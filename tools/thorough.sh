#!/bin/bash
# Runs every registered check's thorough tier, one after the other (each uses all cores); one line per check.
cd "$(dirname "$0")/.."
for id in ${@:-$(/venv/bin/python -c "import json;print(' '.join(c['property_id'] for c in json.load(open('MANIFEST.json'))['checks']))")}; do
  start=$(date +%s)
  out=$(timeout 14400 ./check $id --tier thorough 2>&1); code=$?
  echo "$id exit=$code $(( $(date +%s) - start ))s $(echo "$out" | grep -E "^$id tier" | tail -1)"
  echo "$out" | grep -E "VIOLATION|HARNESS-ERROR|KNOWN-FINDING|rule=" | head -8
done
