import re, zlib, sys

def load(path):
    d = open(path, 'rb').read()
    objs = {}
    for m in re.finditer(rb'(\d+) (\d+) obj(.*?)endobj', d, re.S):
        objs[int(m.group(1))] = m.group(3)
    # expand object streams
    for num, body in list(objs.items()):
        if b'/ObjStm' in body[:200]:
            sm = re.search(rb'stream\r?\n(.*?)\r?\nendstream', body, re.S)
            s = zlib.decompress(sm.group(1))
            first = int(re.search(rb'/First (\d+)', body).group(1))
            n = int(re.search(rb'/N (\d+)', body).group(1))
            hdr = s[:first].split()
            pairs = [(int(hdr[2*i]), int(hdr[2*i+1])) for i in range(n)]
            for i, (onum, off) in enumerate(pairs):
                end = pairs[i+1][1] if i+1 < n else len(s) - first
                objs[onum] = s[first+off:first+end]
    return objs

def stream(body):
    sm = re.search(rb'stream\r?\n(.*?)\r?\nendstream', body, re.S)
    if not sm: return None
    raw = sm.group(1)
    if b'FlateDecode' in body.split(b'stream')[0]:
        return zlib.decompress(raw)
    return raw

def parse_cmap(s):
    m = {}
    for blk in re.findall(rb'beginbfchar(.*?)endbfchar', s, re.S):
        for a, b in re.findall(rb'<([0-9A-Fa-f]+)>\s*<([0-9A-Fa-f]+)>', blk):
            m[int(a, 16)] = bytes.fromhex(b.decode()).decode('utf-16-be', 'replace')
    for blk in re.findall(rb'beginbfrange(.*?)endbfrange', s, re.S):
        for a, b, c in re.findall(rb'<([0-9A-Fa-f]+)>\s*<([0-9A-Fa-f]+)>\s*<([0-9A-Fa-f]+)>', blk):
            a, b, c = int(a, 16), int(b, 16), int(c, 16)
            for i in range(a, b+1):
                m[i] = chr(c + i - a)
        for a, b, arr in re.findall(rb'<([0-9A-Fa-f]+)>\s*<([0-9A-Fa-f]+)>\s*\[(.*?)\]', blk, re.S):
            a = int(a, 16)
            for i, h in enumerate(re.findall(rb'<([0-9A-Fa-f]+)>', arr)):
                m[a+i] = bytes.fromhex(h.decode()).decode('utf-16-be', 'replace')
    return m

def ref(b, key):
    m = re.search(key + rb'\s+(\d+) 0 R', b)
    return int(m.group(1)) if m else None

def page_list(objs):
    # walk the page tree from the catalog
    root = None
    for n, b in objs.items():
        if b'/Type/Catalog' in b or b'/Type /Catalog' in b:
            root = n
    pages = ref(objs[root], rb'/Pages')
    out = []
    def walk(n):
        b = objs[n]
        if re.search(rb'/Type\s*/Pages', b):
            kids = re.search(rb'/Kids\s*\[(.*?)\]', b, re.S).group(1)
            for k in re.findall(rb'(\d+) 0 R', kids):
                walk(int(k))
        else:
            out.append(n)
    walk(pages)
    return out

def fonts_for_page(objs, pb):
    fm = {}
    res = pb
    r = ref(pb, rb'/Resources')
    if r: res = objs[r]
    fd = re.search(rb'/Font\s*<<(.*?)>>', res, re.S)
    if not fd:
        fr = ref(res, rb'/Font')
        fdb = objs[fr] if fr else b''
    else:
        fdb = fd.group(1)
    for name, n in re.findall(rb'/(\w+)\s+(\d+) 0 R', fdb):
        fb = objs[int(n)]
        tu = ref(fb, rb'/ToUnicode')
        cm = parse_cmap(stream(objs[tu])) if tu else None
        twobyte = b'Identity-H' in fb
        fm[name.decode()] = (cm, twobyte)
    return fm

TOK = re.compile(rb'\((?:\\.|[^\\()])*\)|<[0-9A-Fa-f\s]*>|\[|\]|/[^\s/\[\]()<>]+|[-+]?\d*\.?\d+|[A-Za-z\'"*]+')

def unesc(b):
    out = bytearray(); i = 0
    while i < len(b):
        c = b[i]
        if c == 0x5c:
            i += 1; c = b[i]
            mp = {ord('n'):10, ord('r'):13, ord('t'):9, ord('b'):8, ord('f'):12}
            if c in mp: out.append(mp[c])
            elif 48 <= c <= 55:
                j = i; v = 0
                while j < len(b) and j < i+3 and 48 <= b[j] <= 55:
                    v = v*8 + b[j]-48; j += 1
                out.append(v & 255); i = j-1
            else: out.append(c)
        else: out.append(c)
        i += 1
    return bytes(out)

def dec(tok, font):
    cm, two = font if font else (None, False)
    if tok[:1] == b'(':
        raw = unesc(tok[1:-1])
    else:
        h = re.sub(rb'\s', b'', tok[1:-1])
        if len(h) % 2: h += b'0'
        raw = bytes.fromhex(h.decode())
    if two:
        codes = [int.from_bytes(raw[i:i+2], 'big') for i in range(0, len(raw), 2)]
    else:
        codes = list(raw)
    if cm:
        return ''.join(cm.get(c, '?') for c in codes)
    return bytes(codes).decode('cp1252', 'replace') if not two else ''.join(chr(c) for c in codes)

def extract(path):
    objs = load(path)
    pages = page_list(objs)
    result = []
    for pi, pn in enumerate(pages):
        pb = objs[pn]
        fm = fonts_for_page(objs, pb)
        cont = re.search(rb'/Contents\s*(\[.*?\]|\d+ 0 R)', pb, re.S).group(1)
        data = b'\n'.join(stream(objs[int(k)]) for k in re.findall(rb'(\d+) 0 R', cont))
        items = []
        stack = []; font = None
        tm = [1,0,0,1,0,0]; lm = [1,0,0,1,0,0]; ctm = [1,0,0,1,0,0]; ctmstack = []
        inarr = False; arr = []
        for t in TOK.findall(data):
            c = t[:1]
            if inarr:
                if t == b']': inarr = False; stack.append(arr)
                else: arr.append(t)
                continue
            if t == b'[': inarr = True; arr = []; continue
            if c in b'(<' or c == b'/' or re.match(rb'[-+]?\d*\.?\d+$', t):
                stack.append(t); continue
            op = t
            try:
                if op == b'Tf': font = fm.get(stack[-2][1:].decode())
                elif op == b'Tm':
                    tm = [float(x) for x in stack[-6:]]; lm = tm[:]
                elif op in (b'Td', b'TD'):
                    tx, ty = float(stack[-2]), float(stack[-1])
                    lm = [lm[0], lm[1], lm[2], lm[3], lm[4]+tx*lm[0]+ty*lm[2], lm[5]+tx*lm[1]+ty*lm[3]]; tm = lm[:]
                elif op == b'BT': tm = [1,0,0,1,0,0]; lm = tm[:]
                elif op == b'cm':
                    m = [float(x) for x in stack[-6:]]
                    a,b,c2,d,e,f = m; A,B,C,D,E,F = ctm
                    ctm = [a*A+b*C, a*B+b*D, c2*A+d*C, c2*B+d*D, e*A+f*C+E, e*B+f*D+F]
                elif op == b'q': ctmstack.append(ctm[:])
                elif op == b'Q': ctm = ctmstack.pop() if ctmstack else ctm
                elif op == b'Tj':
                    x = tm[4]*ctm[0]+tm[5]*ctm[2]+ctm[4]; y = tm[4]*ctm[1]+tm[5]*ctm[3]+ctm[5]
                    items.append((y, x, dec(stack[-1], font)))
                elif op == b'TJ':
                    s = ''
                    for e in stack[-1]:
                        if e[:1] in b'(<': s += dec(e, font)
                        else:
                            try:
                                if float(e) < -200: s += ' '
                            except ValueError: pass
                    x = tm[4]*ctm[0]+tm[5]*ctm[2]+ctm[4]; y = tm[4]*ctm[1]+tm[5]*ctm[3]+ctm[5]
                    items.append((y, x, s))
            except Exception as ex:
                pass
            stack = []
        # group to lines
        items.sort(key=lambda it: (-round(it[0]), it[1]))
        lines = []; cur = None; cy = None
        for y, x, s in items:
            if cy is None or abs(y-cy) > 3:
                if cur: lines.append(cur)
                cur = []; cy = y
            cur.append((x, s))
        if cur: lines.append(cur)
        text = []
        for ln in lines:
            ln.sort()
            out = ''; lastx = None
            for x, s in ln:
                if lastx is not None and x - lastx > 40: out += ' | '
                out += s; lastx = x
            text.append(out)
        result.append('\n'.join(text))
    return result

if __name__ == '__main__':
    pages = extract(sys.argv[1])
    for i, p in enumerate(pages):
        print(f'===== page {i+1} =====')
        print(p)
