#!/bin/bash
# usage: evalseed.sh <worktree> <demo.py> <ID> [ID...]   - verify a seeded change and run the checks against it
W=$1; DEMO=$2; shift 2
cd "$W" || exit 2
echo "== tests with change:"; PYTHONPATH=$W /venv/bin/python -m pytest -q -p no:cacheprovider 2>&1 | tail -1
echo "== demo with change:"; PYTHONPATH=$W timeout 300 /venv/bin/python $DEMO >/dev/null 2>&1; echo "exit=$?"
git diff -- pyairtouch > /tmp/evalseed.patch
git checkout -q -- pyairtouch
echo "== demo without change:"; PYTHONPATH=$W timeout 300 /venv/bin/python $DEMO >/dev/null 2>&1; echo "exit=$?"
git apply /tmp/evalseed.patch
for id in "$@"; do
  out=$(cd /verif && PYAIRTOUCH_SRC=$W VERIF_CANARY=1 timeout 3000 ./check $id --tier quick --no-selftest-b 2>&1); code=$?
  echo "== check $id exit=$code $(echo "$out" | grep -E "^$id tier" | tail -1)"
  echo "$out" | grep -E "rule=" | cut -c1-300 | head -4
done
cd /verif && git checkout -q -- evidence 2>/dev/null
