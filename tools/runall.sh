#!/bin/bash
# Runs every registered check's quick (or $1) tier and prints one line each.
cd "$(dirname "$0")/.."
tier=${1:-quick}
rc=0
for id in $(/venv/bin/python -c "import json;print(' '.join(c['property_id'] for c in json.load(open('MANIFEST.json'))['checks']))"); do
  out=$(timeout 7200 ./check $id --tier $tier 2>&1); code=$?
  echo "$id exit=$code $(echo "$out" | grep -E "^$id tier" | tail -1)"
  echo "$out" | grep -E "VIOLATION|HARNESS-ERROR|KNOWN-FINDING" | head -5
  [ $code -ne 0 ] && rc=1
done
exit $rc
