#!/venv/bin/python
"""Regenerates MANIFEST.json from the check modules that exist (checks/cNN.py)."""
import importlib
import json
import os
import sys

ROOT = os.path.dirname(os.path.dirname(os.path.abspath(__file__)))
sys.path.insert(0, ROOT)
sys.path.insert(0, os.environ.get("PYAIRTOUCH_SRC", "/repo"))

props = [json.loads(l) for l in open(os.path.join(ROOT, "properties.jsonl"))]
checks = []
not_app = []
NOT_APPLICABLE = {}
na_path = os.path.join(ROOT, "tools", "not_applicable.json")
if os.path.exists(na_path):
    NOT_APPLICABLE = json.load(open(na_path))
for p in props:
    pid = p["id"]
    path = os.path.join(ROOT, "checks", pid.lower() + ".py")
    if pid in NOT_APPLICABLE or not os.path.exists(path):
        not_app.append({"property_id": pid, "reason": NOT_APPLICABLE.get(pid, "check not built yet (work in progress); no claim is made")})
        continue
    mod = importlib.import_module("checks." + pid.lower())
    checks.append({
        "property_id": pid,
        "quick_cmd": f"./check {pid} --tier quick",
        "thorough_cmd": f"./check {pid} --tier thorough",
        "evidence_file": f"evidence/{pid}.json",
        "replay_cmd_template": f"./check {pid} --replay {{path}}",
        "engine": "sim",
        "level_claimed": {"category": mod.LEVEL, "text": mod.LEVEL_TEXT, "design_ref": f"DESIGN.md section 6, {pid}"},
        "level_note": mod.LEVEL_NOTE,
        "technique": mod.TECHNIQUE,
    })
manifest = {
    "version": 1,
    "setup_cmd": "./check --selftest",
    "hooks": {
        "guard": "PYAIRTOUCH_VERIF",
        "enable": "no hook in /repo is needed: every seam (event loop, clock, TCP/UDP transports, as_completed, subscriber sets, registries) is reached from outside by sim/seams.py; checks import pyairtouch from /repo's working tree (PYAIRTOUCH_SRC overrides)",
        "baseline_off_cmd": "cd /repo && /venv/bin/python -m pytest -q -p no:cacheprovider",
        "source_commits": [],
        "add_only": True,
    },
    "engines": [{
        "name": "sim", "path": "sim/ harness/ ref/",
        "serves_properties": [c["property_id"] for c in checks],
        "kind_free_text": "deterministic simulation with fault injection: virtual-time asyncio loop, simulated TCP/UDP with fault script, reference console written from the vendor documents, seeded scenario search, delta-debugging minimiser, replay files",
    }],
    "checks": checks,
    "not_applicable": not_app,
    "notes": "Exit 0 = held on everything explored (KNOWN-FINDING lines for listed findings); 1 = VIOLATION; 2 = HARNESS-ERROR. VERIF_SEED selects the batch; PYAIRTOUCH_SRC selects the tree (default /repo).",
}
json.dump(manifest, open(os.path.join(ROOT, "MANIFEST.json"), "w"), indent=1)
print("checks:", [c["property_id"] for c in checks], "not_applicable:", [n["property_id"] for n in not_app])
try:
    import jsonschema
    jsonschema.validate(manifest, json.load(open("/root/.vp/MANIFEST.schema.json")))
    print("manifest validates")
except ImportError:
    pass
