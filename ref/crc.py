"""CRC-16/MODBUS, bit by bit (no table): reflected polynomial 0xA001, initial
value 0xFFFF, no final xor.  On the wire the vendor documents show the high
byte first (e.g. `... 0x00 0x00  0xf5 0x2f` for the 0x2B request)."""


def crc16(data: bytes) -> int:
    reg = 0xFFFF
    for b in data:
        reg ^= b
        for _ in range(8):
            if reg & 1:
                reg = (reg >> 1) ^ 0xA001
            else:
                reg >>= 1
    return reg


def crc_bytes(data: bytes) -> bytes:
    c = crc16(data)
    return bytes(((c >> 8) & 0xFF, c & 0xFF))
