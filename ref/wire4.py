"""Reference reading of the AirTouch 4 wire format.

Written from spec/airtouch4_v1.6.txt (Polyaire "AirTouch 4 Communication
Protocol" v1.6) and, for the messages the document does not describe
(0x36/0x37 timers, 0xFF20 quick timer), from spec/undocumented_messages.md.
Imports nothing from pyairtouch.  Values are plain dicts / strings.

`NA` marks a field the document calls "not available"; `UNDEF` marks input the
document does not define (oracles then accept rejection or any reading).
"""

from __future__ import annotations

from .crc import crc_bytes

PREFIX = b"\x55\x55"
ADDR_CONSOLE = 0x80
ADDR_CONSOLE_EXT = 0x90
ADDR_CLIENT = 0xB0

T_GROUP_CTRL = 0x2A
T_GROUP_STATUS = 0x2B
T_AC_CTRL = 0x2C
T_AC_STATUS = 0x2D
T_TIMER_CTRL = 0x36
T_TIMER_STATUS = 0x37
T_EXT = 0x1F

X_ERR = 0xFF10
X_ABILITY = 0xFF11
X_NAMES = 0xFF12
X_QUICK_TIMER = 0xFF20
X_VERSION = 0xFF30

NA = "na"
UNDEF = "undef"

MODE_SET = {0: "auto", 1: "heat", 2: "dry", 3: "fan", 4: "cool"}
MODE_STATUS = {0: "auto", 1: "heat", 2: "dry", 3: "fan", 4: "cool", 8: "auto_heat", 9: "auto_cool"}
FAN = {0: "auto", 1: "quiet", 2: "low", 3: "medium", 4: "high", 5: "powerful", 6: "turbo"}
MODE_CODE = {v: k for k, v in MODE_SET.items()}
MODE_STATUS_CODE = {v: k for k, v in MODE_STATUS.items()}
FAN_CODE = {v: k for k, v in FAN.items()}
MODE_BITS = ["auto", "heat", "dry", "fan", "cool"]  # bit1..bit5 of byte 23
FAN_BITS = ["auto", "quiet", "low", "medium", "high", "powerful", "turbo"]  # bit1..bit7 of byte 24


# ---------------------------------------------------------------- framing
def frame(to: int, frm: int, pid: int, mtype: int, data: bytes) -> bytes:
    body = bytes((to, frm, pid & 0xFF, mtype)) + len(data).to_bytes(2, "big") + bytes(data)
    return PREFIX + body + crc_bytes(body)


HEADER_LEN = 8


def parse_stream(buf: bytes):
    """Reference receiver.  Returns (frames, verdict, consumed).

    frames: list of dicts for the maximal prefix of well-formed frames.
    verdict: "clean" (buffer ends at a frame boundary), "partial" (ends inside a
    frame that is well-formed so far) or "bad:<why>" (the byte stream stops being
    a frame sequence at `consumed`; a receiver must not deliver anything from
    there on without resynchronising - the client's documented reaction is to
    reset the connection).
    """
    frames = []
    pos = 0
    n = len(buf)
    while pos < n:
        if n - pos < HEADER_LEN:
            # could still become a header
            return frames, "partial", pos
        if buf[pos : pos + 2] != PREFIX:
            return frames, "bad:prefix", pos
        to, frm, pid, mtype = buf[pos + 2], buf[pos + 3], buf[pos + 4], buf[pos + 5]
        dlen = int.from_bytes(buf[pos + 6 : pos + 8], "big")
        end = pos + HEADER_LEN + dlen + 2
        if end > n:
            return frames, "partial", pos
        body = buf[pos + 2 : pos + HEADER_LEN + dlen]
        crc = buf[end - 2 : end]
        if crc_bytes(body) != bytes(crc):
            return frames, "bad:crc", pos
        frames.append(
            {
                "to": to,
                "frm": frm,
                "pid": pid,
                "type": mtype,
                "data": bytes(buf[pos + HEADER_LEN : pos + HEADER_LEN + dlen]),
                "raw": bytes(buf[pos:end]),
                "at": pos,
            }
        )
        pos = end
    return frames, "clean", pos


# ---------------------------------------------------------------- helpers
def _cstr(b: bytes):
    raw = bytes(b).split(b"\0", 1)[0]
    try:
        return raw.decode("utf-8")
    except UnicodeDecodeError:
        return UNDEF


def _temp11(b5: int, b6: int):
    if b5 == 0xFF:
        return NA
    value = (b5 << 3) | (b6 >> 5)
    return (value - 500) / 10


def enc_temp11(temp) -> tuple[int, int]:
    """(byte5, byte6 upper bits) for a temperature or None (not available)."""
    if temp is None:
        return 0xFF, 0x00
    value = int(round(temp * 10)) + 500
    return (value >> 3) & 0xFF, (value & 7) << 5


def _timer(b1: int, b2: int):
    return {"disabled": bool(b1 & 0x80), "hour": b1 & 0x1F, "minute": b2 & 0x3F}


def enc_timer(t) -> bytes:
    return bytes(((0x80 if t["disabled"] else 0) | (t["hour"] & 0x1F), t["minute"] & 0x3F))


# ---------------------------------------------------------------- decoders
def dec_group_control(data: bytes):
    if len(data) != 4:
        return {"kind": UNDEF, "why": "group control length"}
    b1, b2, b3, b4 = data
    setting = {0: "keep", 2: "dec", 3: "inc", 4: "percent", 5: "setpoint"}.get(b2 >> 5, UNDEF)
    method = {0: "keep", 1: "change", 2: "damper", 3: "temperature"}[(b2 >> 3) & 3]
    power = {0: "keep", 1: "next", 2: "off", 3: "on", 5: "turbo"}.get(b2 & 7, UNDEF)
    return {
        "kind": "group_control",
        "group": b1,
        "setting": setting,
        "method": method,
        "power": power,
        "value": b3,
        "pad": b4,
    }


def dec_ac_control(data: bytes):
    if len(data) != 4:
        return {"kind": UNDEF, "why": "ac control length"}
    b1, b2, b3, b4 = data
    return {
        "kind": "ac_control",
        "ac": b1 & 0x3F,
        "power": {0: "keep", 1: "toggle", 2: "off", 3: "on"}[b1 >> 6],
        "mode": MODE_SET.get(b2 >> 4, "keep"),
        "fan": FAN.get(b2 & 0x0F, "keep"),
        "sp_type": {0: "keep", 1: "set", 2: "dec", 3: "inc"}[b3 >> 6],
        "sp_value": b3 & 0x3F,
        "pad": b4,
    }


def dec_group_status_record(r: bytes):
    b1, b2, b3, b4, b5, b6 = r
    return {
        "group": b1 & 0x3F,
        "power": {0: "off", 1: "on", 3: "turbo"}.get(b1 >> 6, UNDEF),
        "method": "temperature" if b2 & 0x80 else "damper",
        "percent": b2 & 0x7F,
        "battery_low": bool(b3 & 0x80),
        "turbo_support": bool(b3 & 0x40),
        "setpoint": b3 & 0x3F,
        "sensor": bool(b4 & 0x80),
        "temp": _temp11(b5, b6),
        "spill": bool(b6 & 0x10),
    }


def enc_group_status_record(g) -> bytes:
    b1 = ({"off": 0, "on": 1, "turbo": 3}[g["power"]] << 6) | (g["group"] & 0x3F)
    b2 = (0x80 if g["method"] == "temperature" else 0) | (g["percent"] & 0x7F)
    b3 = (0x80 if g["battery_low"] else 0) | (0x40 if g["turbo_support"] else 0) | (g["setpoint"] & 0x3F)
    b4 = 0x80 if g["sensor"] else 0
    b5, b6 = enc_temp11(g["temp"])
    b6 |= 0x10 if g["spill"] else 0
    return bytes((b1, b2, b3, b4, b5, b6))


def dec_ac_status_record(r: bytes):
    b1, b2, b3, _b4, b5, b6, b7, b8 = r
    return {
        "ac": b1 & 0x3F,
        "power": {0: "off", 1: "on"}.get(b1 >> 6, NA),
        "mode": MODE_STATUS.get(b2 >> 4, NA),
        "fan": FAN.get(b2 & 0x0F, NA),
        "spill": bool(b3 & 0x80),
        "timer": bool(b3 & 0x40),
        "setpoint": b3 & 0x3F,
        "temp": _temp11(b5, b6),
        "error": (b7 << 8) | b8,
    }


def enc_ac_status_record(a) -> bytes:
    b1 = ({"off": 0, "on": 1}[a["power"]] << 6) | (a["ac"] & 0x3F)
    b2 = (MODE_STATUS_CODE[a["mode"]] << 4) | FAN_CODE[a["fan"]]
    b3 = (0x80 if a["spill"] else 0) | (0x40 if a["timer"] else 0) | (a["setpoint"] & 0x3F)
    b5, b6 = enc_temp11(a["temp"])
    return bytes((b1, b2, b3, 0, b5, b6, (a["error"] >> 8) & 0xFF, a["error"] & 0xFF))


def dec_timer_records(data: bytes):
    out = []
    for i in range(len(data) // 8):
        r = data[8 * i : 8 * i + 8]
        out.append({"ac": i, "on": _timer(r[0], r[1]), "off": _timer(r[2], r[3])})
    return out


def enc_timer_records(recs_by_ac: dict) -> bytes:
    out = bytearray(32)
    for ac, t in recs_by_ac.items():
        out[8 * ac : 8 * ac + 2] = enc_timer(t["on"])
        out[8 * ac + 2 : 8 * ac + 4] = enc_timer(t["off"])
    return bytes(out)


def dec_ability(payload: bytes):
    """payload = extended data after the 0xFF 0x11 id."""
    acs = []
    pos = 0
    n = len(payload)
    while pos < n:
        if n - pos < 2:
            return {"kind": UNDEF, "why": "ability truncated"}
        ac, follow = payload[pos], payload[pos + 1]
        if follow not in (22, 24) or pos + 2 + follow > n:
            return {"kind": UNDEF, "why": "ability following length"}
        r = payload[pos + 2 : pos + 2 + follow]
        rec = {
            "ac": ac,
            "name": _cstr(r[0:16]),
            "start_group": r[16],
            "group_count": r[17],
            "modes": [m for i, m in enumerate(MODE_BITS) if r[18] & (1 << i)],
            "fans": [f for i, f in enumerate(FAN_BITS) if r[19] & (1 << i)],
            "min_sp": r[20],
            "max_sp": r[21],
            "groups": None,
        }
        if follow == 24:
            bits = r[22] | (r[23] << 8)  # byte27 = groups 1..8, byte28 = groups 9..16
            rec["groups"] = [g for g in range(16) if bits & (1 << g)]
        acs.append(rec)
        pos += 2 + follow
    return {"kind": "ability", "acs": acs}


def enc_ability_record(a, with_bitmap: bool = True) -> bytes:
    name = a["name"].encode("utf-8")[:16]
    name = name + b"\0" * (16 - len(name))
    b23 = sum(1 << i for i, m in enumerate(MODE_BITS) if m in a["modes"])
    b24 = sum(1 << i for i, f in enumerate(FAN_BITS) if f in a["fans"])
    body = name + bytes((a["start_group"], a["group_count"], b23, b24, a["min_sp"], a["max_sp"]))
    if with_bitmap:
        bits = sum(1 << g for g in (a["groups"] or []))
        body += bytes((bits & 0xFF, (bits >> 8) & 0xFF))
    return bytes((a["ac"], len(body))) + body


def dec_names(payload: bytes):
    if len(payload) % 9:
        return {"kind": UNDEF, "why": "names length", "structural": "names"}
    names = {}
    for i in range(len(payload) // 9):
        r = payload[9 * i : 9 * i + 9]
        names[r[0]] = _cstr(r[1:9])
    return {"kind": "names", "names": names}


def enc_names(names: dict) -> bytes:
    out = bytearray()
    for g, nm in names.items():
        b = nm.encode("utf-8")[:8]
        out += bytes((g,)) + b + b"\0" * (8 - len(b))
    return bytes(out)


def dec_error_info(payload: bytes):
    if len(payload) < 2:
        return {"kind": UNDEF, "why": "error info length"}
    ac, ln = payload[0], payload[1]
    if 2 + ln != len(payload):
        return {"kind": UNDEF, "why": "error info length mismatch"}
    if ln == 0:
        return {"kind": "error_info", "ac": ac, "text": None}
    try:
        return {"kind": "error_info", "ac": ac, "text": payload[2 : 2 + ln].decode("utf-8")}
    except UnicodeDecodeError:
        return {"kind": UNDEF, "why": "error info text"}


def dec_version(payload: bytes, sep: str = "|"):
    if len(payload) < 2:
        return {"kind": UNDEF, "why": "version length"}
    upd, ln = payload[0], payload[1]
    if 2 + ln != len(payload):
        return {"kind": UNDEF, "why": "version length mismatch"}
    try:
        text = payload[2 : 2 + ln].decode("utf-8")
    except UnicodeDecodeError:
        return {"kind": UNDEF, "why": "version text"}
    return {"kind": "version", "update": upd != 0, "versions": text.split(sep)}


def enc_version(update: bool, versions: list[str], sep: str = "|") -> bytes:
    t = sep.join(versions).encode("utf-8")
    return bytes((1 if update else 0, len(t))) + t


def dec_quick_timer(payload: bytes):
    if len(payload) != 4:
        return {"kind": UNDEF, "why": "quick timer length"}
    return {
        "kind": "quick_timer",
        "ac": payload[0],
        "type": {0: "off", 1: "on"}.get(payload[1], UNDEF),
        "hours": payload[2],
        "minutes": payload[3],
    }


def read(fr: dict) -> dict:
    """Reference reading of one frame (dict from parse_stream)."""
    t, d = fr["type"], fr["data"]
    if t == T_GROUP_CTRL:
        return dec_group_control(d)
    if t == T_AC_CTRL:
        return dec_ac_control(d)
    if t == T_GROUP_STATUS:
        if len(d) == 0:
            return {"kind": "group_status_request"}
        if len(d) % 6:
            return {"kind": UNDEF, "why": "group status length", "partial_record": True, "stride": 6, "nbytes": len(d)}
        return {"kind": "group_status", "groups": [dec_group_status_record(d[i : i + 6]) for i in range(0, len(d), 6)]}
    if t == T_AC_STATUS:
        if len(d) == 0:
            return {"kind": "ac_status_request"}
        if len(d) % 8:
            return {"kind": UNDEF, "why": "ac status length", "partial_record": True, "stride": 8, "nbytes": len(d)}
        return {"kind": "ac_status", "acs": [dec_ac_status_record(d[i : i + 8]) for i in range(0, len(d), 8)]}
    if t in (T_TIMER_STATUS, T_TIMER_CTRL):
        if len(d) == 0:
            return {"kind": "timer_status_request" if t == T_TIMER_STATUS else UNDEF}
        if len(d) % 8:
            return {"kind": UNDEF, "why": "timer length", "partial_record": True, "stride": 8, "nbytes": len(d)}
        return {"kind": "timer_status" if t == T_TIMER_STATUS else "timer_control", "timers": dec_timer_records(d)}
    if t == T_EXT:
        if len(d) < 2:
            return {"kind": UNDEF, "why": "extended without id"}
        sub = (d[0] << 8) | d[1]
        p = d[2:]
        if sub == X_ABILITY:
            if len(p) == 0:
                return {"kind": "ability_request", "ac": "all"}
            if len(p) == 1:
                return {"kind": "ability_request", "ac": p[0]}
            return dec_ability(p)
        if sub == X_ERR:
            if len(p) == 1:
                return {"kind": "error_info_request", "ac": p[0]}
            return dec_error_info(p)
        if sub == X_NAMES:
            if len(p) == 0:
                return {"kind": "names_request", "group": "all"}
            if len(p) == 1:
                return {"kind": "names_request", "group": p[0]}
            return dec_names(p)
        if sub == X_VERSION:
            if len(p) == 0:
                return {"kind": "version_request"}
            return dec_version(p, "|")
        if sub == X_QUICK_TIMER:
            return dec_quick_timer(p)
        return {"kind": "ext_unknown", "sub": sub, "payload": bytes(p)}
    return {"kind": "unknown", "type": t, "payload": bytes(d)}


# ---------------------------------------------------------------- console-side frame builders
def f_status(pid: int, mtype: int, data: bytes, to: int = ADDR_CLIENT) -> bytes:
    return frame(to, ADDR_CONSOLE, pid, mtype, data)


def f_ext(pid: int, sub: int, payload: bytes, to: int = ADDR_CLIENT) -> bytes:
    return frame(to, ADDR_CONSOLE_EXT, pid, T_EXT, sub.to_bytes(2, "big") + payload)


# ---------------------------------------------------------------- self-test vectors from the document
def selftest() -> list[str]:
    h = bytes.fromhex
    errs = []

    def eq(name, a, b):
        if a != b:
            errs.append(f"wire4 {name}: {a!r} != {b!r}")

    # 4.a examples
    eq("2a off", frame(0x80, 0xB0, 1, 0x2A, h("01020000")), h("5555 80b0 01 2a 0004 01020000 da59".replace(" ", "")))
    eq("2a pct", frame(0x80, 0xB0, 1, 0x2A, h("00100000")), h("555580b0012a00040010000023f8"))
    eq("2b req", frame(0x80, 0xB0, 1, 0x2B, b""), h("555580b0012b0000f52f"))
    eq("2c off", frame(0x80, 0xB0, 1, 0x2C, h("81ff3f00")), h("555580b0012c000481ff3f001a96"))
    eq("2c cool", frame(0x80, 0xB0, 1, 0x2C, h("00403f00")), h("555580b0012c000400403f00c28f"))
    eq("2d req", frame(0x80, 0xB0, 1, 0x2D, b""), h("555580b0012d0000f4cf"))
    eq("ext ability req", frame(0x90, 0xB0, 1, 0x1F, h("ff1100")), h("555590b0011f0003ff11000983"))
    eq("ext names all", frame(0x90, 0xB0, 1, 0x1F, h("ff12")), h("555590b0011f0002ff12820c"))
    eq("ext version", frame(0x90, 0xB0, 1, 0x1F, h("ff30")), h("555590b0011f0002ff309b8c"))
    # 4.b example response
    gs = h("5555b080012b000c 4064000000ff00 41e41a806180 6579".replace(" ", ""))
    # The document prints group 1 as 6 bytes "40 64 00 00 ff 00"
    frames, verdict, _ = parse_stream(h("5555b080012b000c40640000ff0041e41a8061806579"))
    if verdict != "clean" or len(frames) != 1:
        errs.append(f"wire4 2b example does not parse: {verdict}")
    else:
        r = read(frames[0])
        g0, g1 = r["groups"]
        eq("g0", (g0["group"], g0["power"], g0["percent"], g0["temp"]), (0, "on", 100, NA))
        eq("g1", (g1["group"], g1["power"], g1["percent"], g1["setpoint"], g1["temp"], g1["sensor"], g1["method"]), (1, "on", 100, 26, 28.0, True, "temperature"))
        eq("g1 enc", enc_group_status_record(dict(g1, temp=28.0)), h("41e41a806180"))
    del gs
    frames, verdict, _ = parse_stream(h("5555b080012d00104042 1a00 6180 0000 0100 1a00 6180 fffe cacb".replace(" ", "")))
    if verdict != "clean":
        errs.append(f"wire4 2d example does not parse: {verdict}")
    else:
        a0, a1 = read(frames[0])["acs"]
        eq("a0", (a0["ac"], a0["power"], a0["mode"], a0["fan"], a0["setpoint"], a0["temp"], a0["error"]), (0, "on", "cool", "low", 26, 28.0, 0))
        eq("a1", (a1["ac"], a1["power"], a1["mode"], a1["fan"], a1["error"]), (1, "off", "auto", "auto", 0xFFFE))
        eq("a0 enc", enc_ac_status_record(a0), h("40421a0061800000"))
    ab = read({"type": 0x1F, "data": h("ff11 00 16 554e4954000000000000000000000000 00 04 17 1d 11 1f".replace(" ", ""))})
    # (the document's own example announces 0x16 = 22 following bytes but prints 24)
    if ab["kind"] != "ability":
        errs.append(f"wire4 ability example: {ab}")
    else:
        a = ab["acs"][0]
        eq("ability", (a["name"], a["start_group"], a["group_count"], a["modes"], a["fans"], a["min_sp"], a["max_sp"]),
           ("UNIT", 0, 4, ["auto", "heat", "dry", "cool"], ["auto", "low", "medium", "high"], 17, 31))
    nm = read({"type": 0x1F, "data": h("ff12 00 4c6976696e670000 01 4b69746368656e00 02 426564726f6f6d00".replace(" ", ""))})
    eq("names", nm.get("names"), {0: "Living", 1: "Kitchen", 2: "Bedroom"})
    v = read({"type": 0x1F, "data": h("ff30 00 0b 312e332e337c312e332e33".replace(" ", ""))})
    eq("version", (v.get("update"), v.get("versions")), (False, ["1.3.3", "1.3.3"]))
    e = read({"type": 0x1F, "data": h("ff10 00 08 45523a2046464645".replace(" ", ""))})
    eq("err", (e.get("ac"), e.get("text")), (0, "ER: FFFE"))
    t = read({"type": 0x37, "data": h("8203840500000000 0203840500000000 8203040500000000 0000000000000000".replace(" ", ""))})
    eq("timer", [(x["on"]["disabled"], x["on"]["hour"], x["on"]["minute"], x["off"]["disabled"], x["off"]["hour"], x["off"]["minute"]) for x in t["timers"]],
       [(True, 2, 3, True, 4, 5), (False, 2, 3, True, 4, 5), (True, 2, 3, False, 4, 5), (False, 0, 0, False, 0, 0)])
    return errs
