"""Reference object model: what every public getter must return.

Fed with the reference readings (ref.wireN.read) of the frames the console has
delivered to the client, in order.  Sources: docstrings of pyairtouch/api.py,
the two vendor documents, DESIGN.md appendix B.  Imports nothing from pyairtouch.

`expected()` returns, per attribute, the SET of admissible plain values (most
sets have one element); `ANY` means "not compared".
"""

from __future__ import annotations

ANY = "<any>"
NA = "na"

AC_MODE_SEL = {"auto": "AUTO", "heat": "HEAT", "dry": "DRY", "fan": "FAN", "cool": "COOL", "auto_heat": "AUTO", "auto_cool": "AUTO"}
AC_MODE_ACT = {"auto": "AUTO", "heat": "HEAT", "dry": "DRY", "fan": "FAN", "cool": "COOL", "auto_heat": "HEAT", "auto_cool": "COOL"}
FAN_SEL = {"auto": "AUTO", "quiet": "QUIET", "low": "LOW", "medium": "MEDIUM", "high": "HIGH", "powerful": "POWERFUL", "turbo": "TURBO"}
FAN_ACT = dict(FAN_SEL)
for _s in ("quiet", "low", "medium", "high", "powerful", "turbo"):
    FAN_SEL["ia_" + _s] = "INTELLIGENT_AUTO"
    FAN_ACT["ia_" + _s] = _s.upper()
POWER = {"off": "OFF", "on": "ON", "away_off": "OFF_AWAY", "away_on": "ON_AWAY", "sleep": "SLEEP"}
MODE_API = {"auto": "AUTO", "heat": "HEAT", "dry": "DRY", "fan": "FAN", "cool": "COOL"}
FAN_API = {"auto": "AUTO", "quiet": "QUIET", "low": "LOW", "medium": "MEDIUM", "high": "HIGH", "powerful": "POWERFUL",
           "turbo": "TURBO", "intelligent_auto": "INTELLIGENT_AUTO"}


def zones_of_ac(gen: int, inst: dict, a: dict) -> list[int]:
    """Which zones belong to AC `a` (vendor documents + property C09)."""
    zone_ids = [z["zone"] for z in inst["zones"]]
    if gen == 5:
        return [z for z in zone_ids if a["start_zone"] <= z < a["start_zone"] + a["zone_count"]]
    fmt = inst.get("ability_format", "bitmap")
    if fmt == "bitmap" and a.get("groups") is not None:
        return [z for z in zone_ids if z in a["groups"]]
    if len(inst["acs"]) == 1:
        return list(zone_ids)
    return [z for z in zone_ids if a["start_group"] <= z < a["start_group"] + a["group_count"]]


class Model:
    def __init__(self, gen: int, inst: dict, meta: dict) -> None:
        self.gen = gen
        self.inst = inst
        self.meta = meta
        self.ac_status: dict[int, dict] = {}
        self.zone_status: dict[int, dict] = {}
        self.timer: dict[int, dict] = {}
        self.err_latest: dict[int, object] = {}
        self.err_since_zero: dict[int, object] = {}
        self.err_admissible: dict[int, set] = {}
        self.err_text_while_clear: dict[int, bool] = {}
        self.version = {"update": inst["update"], "versions": list(inst["versions"])}
        self.acs = {a["ac"]: a for a in inst["acs"]}
        self.zone_names = {z["zone"]: z["name"] for z in inst["zones"]}
        self.ac_zones = {a["ac"]: zones_of_ac(gen, inst, a) for a in inst["acs"]}

    # -- frames ------------------------------------------------------------------
    def feed(self, r: dict) -> None:
        k = r["kind"]
        if k == "ac_status":
            for a in r["acs"]:
                if a["ac"] in self.acs:
                    self.ac_status[a["ac"]] = a
                    if a["error"] == 0:
                        # a report without error code ends the error episode: its description must not
                        # survive into the next one.  Only a text frame that arrived while the AC was
                        # error free may legitimately survive an identical repeat of that report.
                        if self.err_text_while_clear.get(a["ac"]):
                            self.err_admissible[a["ac"]] = {None, self.err_latest.get(a["ac"])}
                        else:
                            self.err_admissible[a["ac"]] = {None}
                        self.err_since_zero[a["ac"]] = None
        elif k in ("group_status", "zone_status"):
            for z in r.get("groups", r.get("zones", [])):
                zid = z.get("group", z.get("zone"))
                if zid in self.zone_names:
                    self.zone_status[zid] = z
        elif k == "timer_status":
            for t in r["timers"]:
                if t["ac"] in self.acs:
                    self.timer[t["ac"]] = t
        elif k == "error_info":
            if r["ac"] in self.acs:
                self.err_latest[r["ac"]] = r["text"]
                self.err_since_zero[r["ac"]] = r["text"]
                self.err_admissible[r["ac"]] = {r["text"]}
                st = self.ac_status.get(r["ac"])
                self.err_text_while_clear[r["ac"]] = st is not None and st["error"] == 0
        elif k == "version":
            self.version = {"update": r["update"], "versions": list(r["versions"])}

    # -- expectations ----------------------------------------------------------------
    def expected(self) -> dict:
        gen = self.gen
        out = {
            "initialised": {True},
            "airtouch_id": {self.meta["airtouch_id"]},
            "serial": {self.meta["serial"]},
            "name": {self.meta["name"]},
            "host": {self.meta["host"]},
            "model": {"AIRTOUCH_4" if gen == 4 else "AIRTOUCH_5"},
            "update_available": {self.version["update"]},
            "console_versions": {tuple(self.version["versions"])},
            "acs": {},
            "zones": {},
        }
        for ac, a in self.acs.items():
            e = {
                "ac_id": {ac},
                "name": {a["name"]},
                "supported_power_controls": {frozenset(["TOGGLE", "TURN_OFF", "TURN_ON"] + (["SET_TO_AWAY", "SET_TO_SLEEP"] if gen == 5 else []))},
                "supported_modes": {frozenset(MODE_API[m] for m in a["modes"])},
                "supported_fan_speeds": {frozenset(FAN_API[f] for f in a["fans"])},
                "target_temperature_resolution": {1.0 if gen == 4 else 0.1},
                "zones": {frozenset(self.ac_zones[ac])},
            }
            st = self.ac_status.get(ac)
            if st is not None:
                e["power_state"] = {POWER.get(st["power"], NA)}
                e["selected_mode"] = {AC_MODE_SEL.get(st["mode"], NA)}
                e["active_mode"] = {AC_MODE_ACT.get(st["mode"], NA)}
                e["selected_fan_speed"] = {FAN_SEL.get(st["fan"], NA)}
                e["active_fan_speed"] = {FAN_ACT.get(st["fan"], NA)}
                e["current_temperature"] = {st["temp"]}
                e["target_temperature"] = {st["setpoint"]}
                if gen == 4:
                    e["min_target_temperature"] = {a["min_sp"]}
                    e["max_target_temperature"] = {a["max_sp"]}
                    e["spill_state"] = {"SPILL" if st["spill"] else "NONE"}
                else:
                    union = (min(a["min_heat"], a["min_cool"]), max(a["max_heat"], a["max_cool"]))
                    heat = (a["min_heat"], a["max_heat"])
                    cool = (a["min_cool"], a["max_cool"])
                    lim = {"heat": [heat], "cool": [cool], "auto_heat": [heat, union], "auto_cool": [cool, union]}.get(st["mode"], [union])
                    e["min_target_temperature"] = {x[0] for x in lim}
                    e["max_target_temperature"] = {x[1] for x in lim}
                    if st["spill"] and st["bypass"]:
                        e["spill_state"] = {"SPILL", "BYPASS"}
                    else:
                        e["spill_state"] = {"SPILL" if st["spill"] else "BYPASS" if st["bypass"] else "NONE"}
                if st["error"] == 0:
                    e["error_info"] = {None}
                else:
                    descs = self.err_admissible.get(ac, {None})
                    e["error_info"] = {("err", st["error"], d) for d in descs}
            t = self.timer.get(ac)
            if t is not None:
                e["on_timer"] = {None if t["on"]["disabled"] else (t["on"]["hour"], t["on"]["minute"])}
                e["off_timer"] = {None if t["off"]["disabled"] else (t["off"]["hour"], t["off"]["minute"])}
            out["acs"][ac] = e
        reachable = {z for zs in self.ac_zones.values() for z in zs}
        for z in reachable:
            e = {
                "zone_id": {z},
                "name": {self.zone_names[z]},
                "target_temperature_resolution": {1.0 if gen == 4 else 0.1},
            }
            st = self.zone_status.get(z)
            if st is not None:
                if gen == 4:
                    e["supported_power_states"] = {frozenset(["OFF", "ON"] + (["TURBO"] if st["turbo_support"] else []))}
                else:
                    e["supported_power_states"] = {frozenset(["OFF", "ON", "TURBO"])}
                e["power_state"] = {st["power"].upper()}
                e["control_method"] = {st["method"].upper()}
                e["has_temp_sensor"] = {st["sensor"]}
                e["sensor_battery_status"] = {"LOW" if st["battery_low"] else "NORMAL"}
                temp = None if st["temp"] == NA else st["temp"]
                e["current_temperature"] = {temp} if st["sensor"] else {None, temp}
                if gen == 4:
                    e["target_temperature"] = {st["setpoint"]} if st["sensor"] else {None, st["setpoint"]}
                else:
                    e["target_temperature"] = {None if st["setpoint"] == NA else st["setpoint"]}
                e["current_damper_percentage"] = {st["percent"]}
                e["spill_active"] = {st["spill"]}
            out["zones"][z] = e
        return out


def _norm(attr: str, v):
    if isinstance(v, dict) and "!raise" in v:
        return ("!raise", v["!raise"])
    if attr in ("supported_power_controls", "supported_modes", "supported_fan_speeds", "supported_power_states", "zones"):
        return frozenset(v)
    if attr == "console_versions":
        return tuple(v)
    if attr in ("on_timer", "off_timer"):
        return None if v is None else tuple(v)
    if attr == "error_info":
        return None if v is None else ("err", v["code"], v["description"])
    return v


def _num_eq(a, b) -> bool:
    if isinstance(a, (int, float)) and isinstance(b, (int, float)) and not isinstance(a, bool) and not isinstance(b, bool):
        return abs(a - b) < 1e-9
    return a == b


def compare(expected: dict, snap: dict) -> list[dict]:
    """Differences between the admissible values and a snapshot (adapter.snapshot)."""
    diffs = []

    def chk(scope, attr, adm, got):
        g = _norm(attr, got)
        if NA in adm:
            return  # the document calls the input "not available": nothing to compare
        if not any(_num_eq(g, x) for x in adm):
            diffs.append({"scope": scope, "attr": attr, "expected": sorted(map(repr, adm)), "got": repr(g)})

    for attr, adm in expected.items():
        if attr in ("acs", "zones"):
            continue
        chk("airtouch", attr, adm, snap.get(attr))
    if set(expected["acs"]) != set(snap["acs"]):
        diffs.append({"scope": "airtouch", "attr": "air_conditioners", "expected": sorted(expected["acs"]), "got": sorted(snap["acs"])})
    for ac, e in expected["acs"].items():
        s = snap["acs"].get(ac)
        if s is None:
            continue
        for attr, adm in e.items():
            chk(f"ac{ac}", attr, adm, s.get(attr))
    if set(expected["zones"]) != set(snap["zones"]):
        diffs.append({"scope": "airtouch", "attr": "zones", "expected": sorted(expected["zones"]), "got": sorted(snap["zones"])})
    for z, e in expected["zones"].items():
        s = snap["zones"].get(z)
        if s is None:
            continue
        for attr, adm in e.items():
            chk(f"zone{z}", attr, adm, s.get(attr))
    return diffs
