"""What each public API call must put on the wire (reference reading), or that it must raise.

Sources: docstrings of the Protocol classes in pyairtouch/api.py, the vendor
documents, the statements of properties C04 / C11.  Imports nothing from
pyairtouch.  The result of `expect_api` is

  {"raise": True}                      the call must raise ValueError, nothing on the wire
  {"accept": [pred, ...]}               exactly one frame; its reference reading r must satisfy
                                        at least one predicate (ties / admissible choices)
  {"skip": "reason"}                    outside what the property / documents define
"""

from __future__ import annotations

import math

MODE_W = {"AUTO": "auto", "HEAT": "heat", "DRY": "dry", "FAN": "fan", "COOL": "cool"}
FAN_W = {"AUTO": "auto", "QUIET": "quiet", "LOW": "low", "MEDIUM": "medium", "HIGH": "high", "POWERFUL": "powerful",
         "TURBO": "turbo", "INTELLIGENT_AUTO": "intelligent_auto"}
ACP_W = {"TOGGLE": "toggle", "TURN_OFF": "off", "TURN_ON": "on", "SET_TO_AWAY": "away", "SET_TO_SLEEP": "sleep"}
ZP_W = {"OFF": "off", "ON": "on", "TURBO": "turbo"}


def rounded(t: float, res_digits: int) -> set[float]:
    """Nearest multiple(s) of the resolution; both neighbours at a tie."""
    scale = 10**res_digits
    x = t * scale
    lo, hi = math.floor(x), math.ceil(x)
    if lo == hi:
        return {lo / scale}
    frac = x - lo
    if abs(frac - 0.5) < 1e-6:
        return {lo / scale, hi / scale}
    return {(lo if frac < 0.5 else hi) / scale}


def _subset(r: dict, want: dict) -> bool:
    return all(r.get(k) == v for k, v in want.items())


def expect_api(gen: int, target, call: str, args: dict, ctx: dict) -> dict:
    """ctx: {"ac": ability dict + "status" (latest reference reading) + "timer", "zone": latest zone status reading}."""
    ent = target[0]
    if ent == "at":
        if call == "check_for_updates":
            return {"accept": [lambda r: r["kind"] == "version_request"], "policy": "idem"}
        return {"skip": "unknown call"}
    if ent == "ac":
        a = ctx["ac"]
        n = a["ac"]
        base4 = {"kind": "ac_control", "ac": n, "power": "keep", "mode": "keep", "fan": "keep", "sp_type": "keep"}
        base5 = {"ac": n, "power": "keep", "mode": "keep", "fan": "keep", "sp_ctrl": "keep"}

        def one5(want):
            return lambda r: r["kind"] == "ac_control" and len(r["acs"]) == 1 and _subset(r["acs"][0], want) and r["rlen"] == 4 and r["normal"] == 0

        def one4(want):
            return lambda r: _subset(r, want) and r.get("pad") == 0

        mk = one4 if gen == 4 else one5
        base = base4 if gen == 4 else base5
        if call == "set_power":
            p = args["ac_power"]
            if gen == 4 and p in ("SET_TO_AWAY", "SET_TO_SLEEP"):
                return {"raise": True}
            return {"accept": [mk(dict(base, power=ACP_W[p]))], "policy": "nonidem" if p == "TOGGLE" else "idem"}
        if call == "set_mode":
            m = MODE_W[args["mode"]]
            if m not in a["modes"]:
                return {"raise": True}
            return {"accept": [mk(dict(base, mode=m, power="on" if args.get("power_on") else "keep"))], "policy": "idem"}
        if call == "set_fan_speed":
            f = FAN_W[args["fan"]]
            if f not in a["fans"]:
                return {"raise": True}
            return {"accept": [mk(dict(base, fan=f))], "policy": "idem"}
        if call == "set_target_temperature":
            t = args["temperature"]
            if gen == 4:
                lo, hi = a["min_sp"], a["max_sp"]
                if lo > hi:
                    return {"skip": "ability min > max"}
                vals = {min(max(lo, int(v)), hi) for v in rounded(t, 0)}
                if any(not 0 <= v <= 63 for v in vals):
                    return {"skip": "set-point outside the 6-bit field"}
                return {"accept": [one4(dict(base4, sp_type="set", sp_value=v)) for v in sorted(vals)], "policy": "idem"}
            lims = ctx["limits"]  # list of admissible (min, max)
            preds = []
            for lo, hi in lims:
                if lo > hi:
                    return {"skip": "ability min > max"}
                for v in rounded(t, 1):
                    c = min(max(lo, v), hi)
                    raw = round(c * 10) - 100
                    if not 0 <= raw <= 250:
                        return {"skip": "set-point outside the protocol byte"}
                    preds.append(one5(dict(base5, sp_ctrl="set", sp_raw=raw)))
            return {"accept": preds, "policy": "idem"}
        if call == "set_quick_timer" and "delta_s" in args["value"]:
            total_min = int(args["value"]["delta_s"] // 60)
            if args["value"]["delta_s"] < 0:
                return {"skip": "negative duration"}
            want = {"kind": "quick_timer", "ac": n, "type": "on" if args["timer_type"] == "ON_TIMER" else "off",
                    "hours": (total_min // 60) % 24, "minutes": total_min % 60}
            return {"accept": [lambda r: _subset(r, want)], "policy": "idem"}
        if call in ("set_quick_timer", "clear_quick_timer"):
            if call == "set_quick_timer":
                if "time" not in args["value"]:
                    return {"raise": True}
                new = {"disabled": False, "hour": args["value"]["time"][0], "minute": args["value"]["time"][1]}
            else:
                new = None
            which = "on" if args["timer_type"] == "ON_TIMER" else "off"
            other = "off" if which == "on" else "on"
            last = ctx.get("timer") or {"on": {"disabled": True, "hour": 0, "minute": 0}, "off": {"disabled": True, "hour": 0, "minute": 0}}

            def pred(r, n=n, which=which, other=other, new=new, last=last):
                if r["kind"] != "timer_control":
                    return False
                recs = [t for t in r["timers"] if t["ac"] == n]
                if len(recs) != 1:
                    return False
                t = recs[0]
                if new is None:
                    if not t[which]["disabled"]:
                        return False
                elif t[which] != new:
                    return False
                lo = last[other]
                if lo["disabled"]:
                    return t[other]["disabled"]
                return t[other] == lo

            return {"accept": [pred], "policy": "idem"}
        return {"skip": "unknown call"}
    if ent == "zone":
        z = ctx["zone"]
        n = z.get("group", z.get("zone"))
        base4 = {"kind": "group_control", "group": n, "power": "keep"}
        base5 = {"zone": n, "power": "keep"}

        def mk(want, methods):
            if gen == 4:
                return lambda r: _subset(r, want) and r["method"] in methods and r.get("pad") == 0
            return lambda r: (r["kind"] == "zone_control" and len(r["zones"]) == 1 and _subset(r["zones"][0], want)
                              and r["zones"][0]["method"] in methods and r["rlen"] == 4 and r["normal"] == 0 and r["zones"][0]["b1hi"] == 0)

        base = base4 if gen == 4 else base5
        if call == "set_power":
            p = ZP_W[args["zone_power"]]
            if gen == 4 and p == "turbo" and not z["turbo_support"]:
                return {"raise": True}
            return {"accept": [mk(dict(base, power=p, setting="keep"), {"keep"})], "policy": "idem"}
        if call == "set_target_temperature":
            if not z["sensor"]:
                return {"raise": True}
            t = args["temperature"]
            if gen == 4:
                vals = {int(v) for v in rounded(t, 0)}
                if all(not 0 <= v <= 255 for v in vals):
                    return {"skip": "zone set-point outside one byte", "inexpressible": True}
                if any(not 0 <= v <= 255 for v in vals):
                    return {"skip": "zone set-point outside one byte"}
                return {"accept": [mk(dict(base, setting="setpoint", value=v), {"keep", "temperature"}) for v in sorted(vals)], "policy": "idem"}
            raws = {round(v * 10) - 100 for v in rounded(t, 1)}
            if all(not 0 <= v <= 255 for v in raws):
                # the protocol byte cannot say this temperature at all: whatever else happens, no frame may claim another one
                return {"skip": "zone set-point outside the protocol byte", "inexpressible": True}
            if any(not 0 <= v <= 250 for v in raws):
                return {"skip": "zone set-point outside the protocol byte"}
            return {"accept": [mk(dict(base, setting="setpoint", value=v), {"keep", "temperature"}) for v in sorted(raws)], "policy": "idem"}
        if call == "set_damper_percentage":
            p = args["percent"]
            if p < 0 or p > 100:
                return {"raise": True}
            return {"accept": [mk(dict(base, setting="percent", value=p), {"keep", "damper"})], "policy": "idem"}
        return {"skip": "unknown call"}
    return {"skip": "unknown target"}


def desc_key(gen: int, d: dict):
    """Canonical comparable form of a socket-level message descriptor == of its wire reading."""
    k = d["kind"]
    if k == "ac_control" and gen == 4:
        return ("ac_control", d["ac"], d.get("power", "keep"), d.get("mode", "keep"), d.get("fan", "keep"), d.get("sp_type", "keep"),
                d.get("sp_value") if d.get("sp_type") == "set" else None)
    if k == "ac_control":
        return ("ac_control",) + tuple(
            (c["ac"], c.get("power", "keep"), c.get("mode", "keep"), c.get("fan", "keep"),
             round(c["setpoint"] * 10) - 100 if c.get("setpoint") is not None else None) for c in d["acs"])
    if k == "group_control":
        return ("group_control", d["group"], d.get("power", "keep"), d.get("method", "keep"), d.get("setting", "keep"),
                d.get("value") if d.get("setting") in ("percent", "setpoint") else None)
    if k == "zone_control":
        return ("zone_control",) + tuple(
            (c["zone"], c.get("power", "keep"), c.get("setting", "keep"),
             (c["value"] if c.get("setting") == "percent" else round(c["value"] * 10) - 100) if c.get("setting") in ("percent", "setpoint") else None)
            for c in d["zones"])
    if k in ("ac_status_request", "group_status_request", "zone_status_request", "timer_status_request", "version_request"):
        return (k,)
    if k == "error_info_request":
        return (k, d["ac"])
    if k == "ability_request":
        return (k, d["ac"])
    if k == "names_request":
        return (k, d.get("group", d.get("zone")))
    if k == "quick_timer":
        return (k, d["ac"], d["type"], d["hours"] % 24, d["minutes"])
    if k == "timer_control":
        return (k,) + tuple((t["ac"], tuple(sorted(t["on"].items())), tuple(sorted(t["off"].items()))) for t in d["timers"])
    raise ValueError(f"no key for {d!r}")


def reading_key(gen: int, r: dict):
    """Key of a reference reading (ref.wireN.read) in the same form as desc_key."""
    k = r["kind"]
    if k == "ac_control" and gen == 4:
        return ("ac_control", r["ac"], r["power"], r["mode"], r["fan"], r["sp_type"], r["sp_value"] if r["sp_type"] == "set" else None)
    if k == "ac_control":
        return ("ac_control",) + tuple((c["ac"], c["power"], c["mode"], c["fan"], c["sp_raw"] if c["sp_ctrl"] == "set" else None) for c in r["acs"])
    if k == "group_control":
        return ("group_control", r["group"], r["power"], r["method"], r["setting"], r["value"] if r["setting"] in ("percent", "setpoint") else None)
    if k == "zone_control":
        return ("zone_control",) + tuple((c["zone"], c["power"], c["setting"], c["value"] if c["setting"] in ("percent", "setpoint") else None) for c in r["zones"])
    if k in ("ac_status_request", "group_status_request", "zone_status_request", "timer_status_request", "version_request"):
        return (k,)
    if k in ("error_info_request", "ability_request"):
        return (k, r["ac"])
    if k == "names_request":
        return (k, r.get("group", r.get("zone")))
    if k == "quick_timer":
        return (k, r["ac"], r["type"], r["hours"], r["minutes"])
    if k == "timer_control":
        if gen == 4:
            return (k,) + tuple((t["ac"], tuple(sorted(t["on"].items())), tuple(sorted(t["off"].items()))) for t in r["timers"])
        return (k,) + tuple((t["ac"], tuple(sorted(t["on"].items())), tuple(sorted(t["off"].items()))) for t in r["timers"])
    return (k, "?")
