"""Reference encoders for client -> console messages (from the vendor documents).

Used to attribute partial frames (cut by an injected write fault) to the
submission they belong to, and as an independent statement of what 'the frame
of that very message' is.  The packet id is a parameter: the documents allow
any value.  Imports nothing from pyairtouch.
"""

from __future__ import annotations

from . import wire4, wire5

_MODE = {"auto": 0, "heat": 1, "dry": 2, "fan": 3, "cool": 4}
_FAN = {"auto": 0, "quiet": 1, "low": 2, "medium": 3, "high": 4, "powerful": 5, "turbo": 6, "intelligent_auto": 8}
_ZPOW = {"keep": 0, "next": 1, "off": 2, "on": 3, "turbo": 5}
_METHOD = {"keep": 0, "change": 1, "damper": 2, "temperature": 3}
_SETTING = {"keep": 0, "dec": 2, "inc": 3, "percent": 4, "setpoint": 5}


def body(gen: int, d: dict) -> tuple[int, int, bytes, list]:
    """(to-address, type, data, mask) - mask lists data offsets whose value the documents leave open."""
    k = d["kind"]
    if gen == 4:
        if k == "ac_control":
            b1 = ({"keep": 0, "toggle": 1, "off": 2, "on": 3}[d.get("power", "keep")] << 6) | d["ac"]
            mode = _MODE.get(d.get("mode", "keep"), 0xF)
            fan = _FAN.get(d.get("fan", "keep"), 0xF)
            st = {"keep": 0, "set": 1, "dec": 2, "inc": 3}[d.get("sp_type", "keep")]
            val = d["sp_value"] if st == 1 else 0x3F
            return 0x80, 0x2C, bytes((b1, (mode << 4) | fan, (st << 6) | val, 0)), ([1] if "mode" not in d or "fan" not in d else [])
        if k == "group_control":
            s = d.get("setting", "keep")
            b2 = (_SETTING[s] << 5) | (_METHOD[d.get("method", "keep")] << 3) | _ZPOW[d.get("power", "keep")]
            val = d["value"] if s in ("percent", "setpoint") else 0
            return 0x80, 0x2A, bytes((d["group"], b2, val, 0)), ([2] if s not in ("percent", "setpoint") else [])
        ext = {"version_request": (0xFF30, b""), "error_info_request": (0xFF10, None), "ability_request": (0xFF11, None),
               "names_request": (0xFF12, None)}
        if k in ext:
            sub, p = ext[k]
            if p is None:
                v = d.get("ac", d.get("group"))
                p = b"" if v == "all" else bytes((v,))
            return 0x90, 0x1F, sub.to_bytes(2, "big") + p, []
        if k == "quick_timer":
            return 0x90, 0x1F, bytes((0xFF, 0x20, d["ac"], 1 if d["type"] == "on" else 0, d["hours"] % 24, d["minutes"])), []
        simple = {"ac_status_request": 0x2D, "group_status_request": 0x2B, "timer_status_request": 0x37}
        if k in simple:
            return 0x80, simple[k], b"", []
    else:
        if k == "ac_control":
            recs = b""
            mask = []
            for i, c in enumerate(d["acs"]):
                p = {"keep": 0, "toggle": 1, "off": 2, "on": 3, "away": 4, "sleep": 5}[c.get("power", "keep")]
                mode = _MODE.get(c.get("mode", "keep"), 0xF)
                fan = _FAN.get(c.get("fan", "keep"), 0xF)
                if c.get("setpoint") is not None:
                    sp = (0x40, round(c["setpoint"] * 10) - 100)
                else:
                    sp = (0x00, 0xFF)
                    mask.append(8 + 4 * i + 3)
                if "mode" not in c or "fan" not in c:
                    mask.append(8 + 4 * i + 1)
                if "power" not in c:
                    mask.append(8 + 4 * i + 0)
                recs += bytes(((p << 4) | c["ac"], (mode << 4) | fan, sp[0], sp[1]))
            return 0x80, 0xC0, wire5.sub_header(0x22, 0, 4, len(d["acs"])) + recs, mask
        if k == "zone_control":
            recs = b""
            mask = []
            for i, c in enumerate(d["zones"]):
                s = c.get("setting", "keep")
                b2 = (_SETTING[s] << 5) | _ZPOW[c.get("power", "keep")]
                if s == "percent":
                    val = c["value"]
                elif s == "setpoint":
                    val = round(c["value"] * 10) - 100
                else:
                    val = 0xFF
                    mask.append(8 + 4 * i + 2)
                recs += bytes((c["zone"], b2, val, 0))
            return 0x80, 0xC0, wire5.sub_header(0x20, 0, 4, len(d["zones"])) + recs, mask
        ext = {"version_request": (0xFF30, b""), "error_info_request": (0xFF10, None), "ability_request": (0xFF11, None),
               "names_request": (0xFF13, None)}
        if k in ext:
            sub, p = ext[k]
            if p is None:
                v = d.get("ac", d.get("zone"))
                p = b"" if v == "all" else bytes((v,))
            return 0x90, 0x1F, sub.to_bytes(2, "big") + p, []
        if k == "quick_timer":
            return 0x90, 0x1F, bytes((0xFF, 0x49, d["ac"], 1 if d["type"] == "on" else 0, d["hours"] % 24, d["minutes"])), []
        simple = {"ac_status_request": 0x23, "zone_status_request": 0x21, "timer_status_request": 0x33}
        if k in simple:
            return 0x80, 0xC0, wire5.sub_header(simple[k], 0, 0, 0), []
    raise ValueError(f"no reference encoding for {d!r}")


def frame(gen: int, d: dict, pid: int = 0) -> bytes:
    to, t, data, _ = body(gen, d)
    w = wire4 if gen == 4 else wire5
    return w.frame(to, 0xB0, pid, t, data)


def prefix_matches(gen: int, d: dict, partial: bytes) -> bool:
    """Is `partial` a proper prefix of a frame for d (packet id and open bytes free)?"""
    if not partial:
        return False
    try:
        full = frame(gen, d, 0)
    except (ValueError, OverflowError, KeyError):
        return False  # a description no frame exists for (the deliberately un-encodable messages of C01 / C07)
    if len(partial) > len(full):
        return False
    pid_off = 4 if gen == 4 else 16
    data_off = 8 if gen == 4 else 20
    _to, _t, data, mask = body(gen, d)
    free = {pid_off} | {data_off + m for m in mask}
    crc_start = len(full) - 2
    for i, b in enumerate(partial):
        if i in free or i >= crc_start:
            continue
        if b != full[i]:
            return False
    return True
