"""Reference reading of the AirTouch 5 wire format.

Written from spec/airtouch5_v1.2.txt (Polyaire "AirTouch 5 Communication
Protocol" v1.2); the outer 0x555555AB header, the 0xC0 0x32/0x33 timer messages
and the 0xFF49 quick timer are not in the vendor document and follow
spec/undocumented_messages.md.  Imports nothing from pyairtouch.
"""

from __future__ import annotations

from .crc import crc_bytes

OUTER = b"\x55\x55\x55\xab"
INNER = b"\x55\x55\x55\xaa"
ADDR_CONSOLE = 0x80
ADDR_CONSOLE_EXT = 0x90
ADDR_CLIENT = 0xB0

T_CS = 0xC0
T_EXT = 0x1F
S_ZONE_CTRL = 0x20
S_ZONE_STATUS = 0x21
S_AC_CTRL = 0x22
S_AC_STATUS = 0x23
S_TIMER_CTRL = 0x32
S_TIMER_STATUS = 0x33
X_ERR = 0xFF10
X_ABILITY = 0xFF11
X_NAMES = 0xFF13
X_VERSION = 0xFF30
X_QUICK_TIMER = 0xFF49

NA = "na"
UNDEF = "undef"

MODE_SET = {0: "auto", 1: "heat", 2: "dry", 3: "fan", 4: "cool"}
MODE_STATUS = {0: "auto", 1: "heat", 2: "dry", 3: "fan", 4: "cool", 8: "auto_heat", 9: "auto_cool"}
FAN_SET = {0: "auto", 1: "quiet", 2: "low", 3: "medium", 4: "high", 5: "powerful", 6: "turbo", 8: "intelligent_auto"}
FAN_STATUS = {
    0: "auto", 1: "quiet", 2: "low", 3: "medium", 4: "high", 5: "powerful", 6: "turbo",
    9: "ia_quiet", 10: "ia_low", 11: "ia_medium", 12: "ia_high", 13: "ia_powerful", 14: "ia_turbo",
}
POWER_STATUS = {0: "off", 1: "on", 2: "away_off", 3: "away_on", 5: "sleep"}
POWER_SET = {1: "toggle", 2: "off", 3: "on", 4: "away", 5: "sleep"}
MODE_STATUS_CODE = {v: k for k, v in MODE_STATUS.items()}
FAN_STATUS_CODE = {v: k for k, v in FAN_STATUS.items()}
POWER_STATUS_CODE = {v: k for k, v in POWER_STATUS.items()}
MODE_BITS = ["auto", "heat", "dry", "fan", "cool"]
FAN_BITS = ["auto", "quiet", "low", "medium", "high", "powerful", "turbo", "intelligent_auto"]

FULL_HEADER_LEN = 20  # outer 10 (prefix 4, pad 2, len 2, len 2) + inner prefix 4 + addr 2 + id + type + dlen 2


def frame(to: int, frm: int, pid: int, mtype: int, data: bytes) -> bytes:
    body = bytes((to, frm, pid & 0xFF, mtype)) + len(data).to_bytes(2, "big") + bytes(data)
    total = 10 + len(data) + 2
    return OUTER + b"\0\0" + total.to_bytes(2, "big") * 2 + INNER + body + crc_bytes(body)


def parse_stream(buf: bytes):
    """Reference receiver; see wire4.parse_stream for the contract."""
    frames = []
    pos = 0
    n = len(buf)
    while pos < n:
        if n - pos < FULL_HEADER_LEN:
            return frames, "partial", pos
        if buf[pos : pos + 4] != OUTER:
            return frames, "bad:outer_prefix", pos
        l1 = int.from_bytes(buf[pos + 6 : pos + 8], "big")
        l2 = int.from_bytes(buf[pos + 8 : pos + 10], "big")
        if buf[pos + 10 : pos + 14] != INNER:
            return frames, "bad:inner_prefix", pos
        to, frm, pid, mtype = buf[pos + 14 : pos + 18]
        dlen = int.from_bytes(buf[pos + 18 : pos + 20], "big")
        if l1 != l2 or l1 != 10 + dlen + 2:
            return frames, "bad:length", pos
        end = pos + 20 + dlen + 2
        if end > n:
            return frames, "partial", pos
        body = buf[pos + 14 : pos + 20 + dlen]
        if crc_bytes(body) != bytes(buf[end - 2 : end]):
            return frames, "bad:crc", pos
        frames.append(
            {
                "to": to,
                "frm": frm,
                "pid": pid,
                "type": mtype,
                "data": bytes(buf[pos + 20 : pos + 20 + dlen]),
                "raw": bytes(buf[pos:end]),
                "pad": bytes(buf[pos + 4 : pos + 6]),
                "at": pos,
            }
        )
        pos = end
    return frames, "clean", pos


# ---------------------------------------------------------------- helpers
def _sp(raw: int, na_from: int = 251):
    """Set-point byte: (value+100)/10."""
    if raw >= na_from:
        return NA
    return (raw + 100) / 10


def enc_sp(sp) -> int:
    if sp is None:
        return 0xFF
    return int(round(sp * 10)) - 100


def _temp(hi: int, lo: int):
    v = ((hi & 0x07) << 8) | lo
    if v > 2000:
        return NA
    return (v - 500) / 10


def enc_temp(t) -> tuple[int, int]:
    if t is None:
        return 0x07, 0xFF
    v = int(round(t * 10)) + 500
    return (v >> 8) & 0x07, v & 0xFF


def _timer(b1: int, b2: int):
    return {"disabled": bool(b1 & 0x80), "hour": b1 & 0x1F, "minute": b2 & 0x3F}


def enc_timer(t) -> bytes:
    return bytes(((0x80 if t["disabled"] else 0) | (t["hour"] & 0x1F), t["minute"] & 0x3F))


def sub_header(sub: int, normal: int, rep_len: int, rep_count: int) -> bytes:
    return bytes((sub, 0)) + normal.to_bytes(2, "big") + rep_len.to_bytes(2, "big") + rep_count.to_bytes(2, "big")


# ---------------------------------------------------------------- records
def dec_zone_control_record(r: bytes):
    b1, b2, b3, b4 = r[:4]
    return {
        "zone": b1 & 0x3F,
        "setting": {2: "dec", 3: "inc", 4: "percent", 5: "setpoint"}.get(b2 >> 5, "keep"),
        "method": {0: "keep", 1: "change", 2: "damper", 3: "temperature"}[(b2 >> 3) & 3],
        "power": {1: "next", 2: "off", 3: "on", 5: "turbo"}.get(b2 & 7, "keep"),
        "value": b3,
        "pad": b4,
        "b1hi": b1 >> 6,
    }


def dec_ac_control_record(r: bytes):
    b1, b2, b3, b4 = r[:4]
    return {
        "ac": b1 & 0x0F,
        "power": POWER_SET.get(b1 >> 4, "keep"),
        "mode": MODE_SET.get(b2 >> 4, "keep"),
        "fan": FAN_SET.get(b2 & 0x0F, "keep"),
        "sp_ctrl": {0x40: "set", 0x00: "keep"}.get(b3, UNDEF),
        "sp_raw": b4,
        "setpoint": (b4 + 100) / 10,
    }


def dec_zone_status_record(r: bytes):
    b1, b2, b3, b4, b5, b6, b7 = r[:7]
    return {
        "zone": b1 & 0x3F,
        "power": {0: "off", 1: "on", 3: "turbo"}.get(b1 >> 6, UNDEF),
        "method": "temperature" if b2 & 0x80 else "damper",
        "percent": b2 & 0x7F,
        "setpoint": _sp(b3, 255),
        "sensor": bool(b4 & 0x80),
        "temp": _temp(b5, b6),
        "spill": bool(b7 & 0x02),
        "battery_low": bool(b7 & 0x01),
    }


def enc_zone_status_record(z, stride: int = 8) -> bytes:
    b1 = ({"off": 0, "on": 1, "turbo": 3}[z["power"]] << 6) | (z["zone"] & 0x3F)
    b2 = (0x80 if z["method"] == "temperature" else 0) | (z["percent"] & 0x7F)
    b3 = enc_sp(z["setpoint"])
    b4 = 0x80 if z["sensor"] else 0
    b5, b6 = enc_temp(z["temp"])
    b7 = (0x02 if z["spill"] else 0) | (0x01 if z["battery_low"] else 0)
    return bytes((b1, b2, b3, b4, b5, b6, b7, 0)) + b"\0" * (stride - 8)


def dec_ac_status_record(r: bytes):
    b1, b2, b3, b4, b5, b6, b7, b8 = r[:8]
    return {
        "ac": b1 & 0x0F,
        "power": POWER_STATUS.get(b1 >> 4, NA),
        "mode": MODE_STATUS.get(b2 >> 4, NA),
        "fan": FAN_STATUS.get(b2 & 0x0F, NA),
        "setpoint": _sp(b3, 251),
        "turbo": bool(b4 & 0x08),
        "bypass": bool(b4 & 0x04),
        "spill": bool(b4 & 0x02),
        "timer": bool(b4 & 0x01),
        "temp": _temp(b5, b6),
        "error": (b7 << 8) | b8,
    }


def enc_ac_status_record(a, stride: int = 10, b4_hi: int = 0xC0) -> bytes:
    b1 = (POWER_STATUS_CODE[a["power"]] << 4) | (a["ac"] & 0x0F)
    b2 = (MODE_STATUS_CODE[a["mode"]] << 4) | FAN_STATUS_CODE[a["fan"]]
    b3 = enc_sp(a["setpoint"])
    b4 = b4_hi | (8 if a["turbo"] else 0) | (4 if a["bypass"] else 0) | (2 if a["spill"] else 0) | (1 if a["timer"] else 0)
    b5, b6 = enc_temp(a["temp"])
    return bytes((b1, b2, b3, b4, b5, b6, (a["error"] >> 8) & 0xFF, a["error"] & 0xFF)) + b"\0" * (stride - 8)


def dec_timer_record(r: bytes):
    return {"ac": r[0], "on": _timer(r[1], r[2]), "off": _timer(r[3], r[4])}


def enc_timer_record(t, stride: int = 9) -> bytes:
    return bytes((t["ac"],)) + enc_timer(t["on"]) + enc_timer(t["off"]) + b"\0" * (stride - 5)


def _cstr(b: bytes):
    raw = bytes(b).split(b"\0", 1)[0]
    try:
        return raw.decode("utf-8")
    except UnicodeDecodeError:
        return UNDEF


def dec_ability(payload: bytes):
    acs = []
    pos, n = 0, len(payload)
    while pos < n:
        if n - pos < 2:
            return {"kind": UNDEF, "why": "ability truncated"}
        ac, follow = payload[pos], payload[pos + 1]
        if follow != 24 or pos + 2 + follow > n:
            return {"kind": UNDEF, "why": "ability following length"}
        r = payload[pos + 2 : pos + 26]
        acs.append(
            {
                "ac": ac,
                "name": _cstr(r[0:16]),
                "start_zone": r[16],
                "zone_count": r[17],
                "modes": [m for i, m in enumerate(MODE_BITS) if r[18] & (1 << i)],
                "fans": [f for i, f in enumerate(FAN_BITS) if r[19] & (1 << i)],
                "min_cool": r[20],
                "max_cool": r[21],
                "min_heat": r[22],
                "max_heat": r[23],
            }
        )
        pos += 26
    return {"kind": "ability", "acs": acs}


def enc_ability_record(a) -> bytes:
    name = a["name"].encode("utf-8")[:16]
    name += b"\0" * (16 - len(name))
    b23 = sum(1 << i for i, m in enumerate(MODE_BITS) if m in a["modes"])
    b24 = sum(1 << i for i, f in enumerate(FAN_BITS) if f in a["fans"])
    return bytes((a["ac"], 24)) + name + bytes(
        (a["start_zone"], a["zone_count"], b23, b24, a["min_cool"], a["max_cool"], a["min_heat"], a["max_heat"])
    )


def dec_names(payload: bytes):
    names = {}
    pos, n = 0, len(payload)
    while pos < n:
        if n - pos < 2:
            return {"kind": UNDEF, "why": "names truncated", "structural": "names"}
        z, ln = payload[pos], payload[pos + 1]
        if pos + 2 + ln > n:
            return {"kind": UNDEF, "why": "name exceeds data", "structural": "names"}
        try:
            names[z] = payload[pos + 2 : pos + 2 + ln].decode("utf-8")
        except UnicodeDecodeError:
            return {"kind": UNDEF, "why": "name text"}
        pos += 2 + ln
    return {"kind": "names", "names": names}


def enc_names(names: dict) -> bytes:
    out = bytearray()
    for z, nm in names.items():
        b = nm.encode("utf-8")
        out += bytes((z, len(b))) + b
    return bytes(out)


def read(fr: dict) -> dict:
    from . import wire4

    t, d = fr["type"], fr["data"]
    if t == T_CS:
        if len(d) < 8:
            return {"kind": UNDEF, "why": "0xC0 without sub header"}
        sub = d[0]
        normal = int.from_bytes(d[2:4], "big")
        rlen = int.from_bytes(d[4:6], "big")
        rcount = int.from_bytes(d[6:8], "big")
        if len(d) != 8 + normal + rlen * rcount:
            return {"kind": UNDEF, "why": "0xC0 lengths disagree", "sub": sub, "normal": normal, "rlen": rlen, "rcount": rcount}
        body = d[8 + normal :]
        recs = [body[i * rlen : (i + 1) * rlen] for i in range(rcount)]
        hdr = {"sub": sub, "normal": normal, "rlen": rlen, "rcount": rcount, "keep0": d[1]}
        if sub == S_ZONE_STATUS:
            if rlen == 0 and rcount == 0:
                return {"kind": "zone_status_request", **hdr}
            if rlen < 8:
                return {"kind": UNDEF, "why": "zone status stride < 8", **hdr}
            return {"kind": "zone_status", "zones": [dec_zone_status_record(r) for r in recs], **hdr}
        if sub == S_AC_STATUS:
            if rlen == 0 and rcount == 0:
                return {"kind": "ac_status_request", **hdr}
            if rlen < 8:
                return {"kind": UNDEF, "why": "ac status stride < 8", **hdr}
            return {"kind": "ac_status", "acs": [dec_ac_status_record(r) for r in recs], **hdr}
        if sub == S_TIMER_STATUS:
            if rlen == 0 and rcount == 0:
                return {"kind": "timer_status_request", **hdr}
            if rlen < 9:
                return {"kind": UNDEF, "why": "timer stride below the known 9-byte layout", **hdr}
            return {"kind": "timer_status", "timers": [dec_timer_record(r) for r in recs], **hdr}
        if sub == S_ZONE_CTRL:
            if rlen < 4:
                return {"kind": UNDEF, "why": "zone control stride", **hdr}
            return {"kind": "zone_control", "zones": [dec_zone_control_record(r) for r in recs], **hdr}
        if sub == S_AC_CTRL:
            if rlen < 4:
                return {"kind": UNDEF, "why": "ac control stride", **hdr}
            return {"kind": "ac_control", "acs": [dec_ac_control_record(r) for r in recs], **hdr}
        if sub == S_TIMER_CTRL:
            if rlen < 5:
                return {"kind": UNDEF, "why": "timer control stride", **hdr}
            return {"kind": "timer_control", "timers": [dec_timer_record(r) for r in recs], **hdr}
        return {"kind": "cs_unknown", "payload": bytes(d[8:]), **hdr}
    if t == T_EXT:
        if len(d) < 2:
            return {"kind": UNDEF, "why": "extended without id"}
        sub = (d[0] << 8) | d[1]
        p = d[2:]
        if sub == X_ABILITY:
            if len(p) == 0:
                return {"kind": "ability_request", "ac": "all"}
            if len(p) == 1:
                return {"kind": "ability_request", "ac": p[0]}
            return dec_ability(p)
        if sub == X_ERR:
            if len(p) == 1:
                return {"kind": "error_info_request", "ac": p[0]}
            return wire4.dec_error_info(p)
        if sub == X_NAMES:
            if len(p) == 0:
                return {"kind": "names_request", "zone": "all"}
            if len(p) == 1:
                return {"kind": "names_request", "zone": p[0]}
            return dec_names(p)
        if sub == X_VERSION:
            if len(p) == 0:
                return {"kind": "version_request"}
            return wire4.dec_version(p, ",")
        if sub == X_QUICK_TIMER:
            return wire4.dec_quick_timer(p)
        return {"kind": "ext_unknown", "sub": sub, "payload": bytes(p)}
    return {"kind": "unknown", "type": t, "payload": bytes(d)}


# ---------------------------------------------------------------- console-side builders
def f_cs(pid: int, sub: int, recs: list[bytes], rlen: int | None = None, normal: bytes = b"", to: int = ADDR_CLIENT) -> bytes:
    if rlen is None:
        rlen = len(recs[0]) if recs else 0
    data = sub_header(sub, len(normal), rlen, len(recs)) + normal + b"".join(recs)
    return frame(to, ADDR_CONSOLE, pid, T_CS, data)


def f_ext(pid: int, sub: int, payload: bytes, to: int = ADDR_CLIENT) -> bytes:
    return frame(to, ADDR_CONSOLE_EXT, pid, T_EXT, sub.to_bytes(2, "big") + payload)


def selftest() -> list[str]:
    h = lambda s: bytes.fromhex(s.replace(" ", ""))  # noqa: E731
    errs = []

    def eq(name, a, b):
        if a != b:
            errs.append(f"wire5 {name}: {a!r} != {b!r}")

    def inner(fr: bytes) -> bytes:
        return fr[10:]

    # documented frames start at the 0x555555AA header
    eq("zone off", inner(frame(0x80, 0xB0, 0x0F, 0xC0, h("20 00 0000 0004 0001 0102ff00"))), h("555555aa 80b0 0f c0 000c 2000000000040001 0102ff00 f0a1"))
    eq("zone status req", inner(frame(0x80, 0xB0, 1, 0xC0, h("2100000000000000"))), h("555555aa80b001c000082100000000000000a431"))
    eq("ac off", inner(frame(0x80, 0xB0, 1, 0xC0, h("2200000000040001 21ff00ff"))), h("555555aa80b001c0000c220000000004000121ff00ffd347"))
    eq("ac status req", inner(frame(0x80, 0xB0, 1, 0xC0, h("2300000000000000"))), h("555555aa80b001c0000823000000000000007db0"))
    eq("ability req", inner(frame(0x90, 0xB0, 1, 0x1F, h("ff1100"))), h("555555aa90b0011f0003ff11000983"))
    eq("names req", inner(frame(0x90, 0xB0, 1, 0x1F, h("ff13"))), h("555555aa90b0011f0002ff1342cd"))
    eq("names req 0", inner(frame(0x90, 0xB0, 1, 0x1F, h("ff1300"))), h("555555aa90b0011f0003ff13006982"))
    eq("version req", inner(frame(0x90, 0xB0, 1, 0x1F, h("ff30"))), h("555555aa90b0011f0002ff309b8c"))
    # docs/design.md example with the outer header
    eq("outer", frame(0x90, 0xB0, 0x31, 0x1F, h("ff13")), h("555555ab0000000e000e555555aa90b0311f0002ff13b2c8"))
    fr, verdict, _ = parse_stream(h("555555ab0000000e000e555555aab090311f0002ff1368eb"))
    if verdict != "clean":
        errs.append(f"wire5 zero-zone echo does not parse: {verdict}")
    z = read({"type": 0xC0, "data": h("21 00 0000 0008 0002 4080968002e70000 0164ff0007ff0000")})
    if z["kind"] != "zone_status":
        errs.append(f"wire5 zone status example: {z}")
    else:
        z0, z1 = z["zones"]
        eq("z0", (z0["zone"], z0["power"], z0["method"], z0["setpoint"], z0["sensor"], z0["temp"]), (0, "on", "temperature", 25.0, True, 24.3))
        eq("z1", (z1["zone"], z1["power"], z1["percent"], z1["setpoint"], z1["sensor"], z1["temp"]), (1, "off", 100, NA, False, NA))
        eq("z0 enc", enc_zone_status_record(dict(z0)), h("4080968002e70000"))
        eq("z1 enc", enc_zone_status_record(dict(z1, setpoint=None, temp=None)), h("0164ff0007ff0000"))
    a = read({"type": 0xC0, "data": h("23 00 0000 000a 0002 101278c002da00008000 014264c002e400008000")})
    if a["kind"] != "ac_status":
        errs.append(f"wire5 ac status example: {a}")
    else:
        a0, a1 = a["acs"]
        eq("a0", (a0["ac"], a0["power"], a0["mode"], a0["fan"], a0["setpoint"], a0["temp"], a0["error"]), (0, "on", "heat", "low", 22.0, 23.0, 0))
        eq("a1", (a1["ac"], a1["power"], a1["mode"], a1["fan"], a1["setpoint"], a1["temp"]), (1, "off", "cool", "low", 20.0, 24.0))
        eq("a0 enc", enc_ac_status_record(a0)[:8], h("101278c002da0000"))
    c = read({"type": 0xC0, "data": h("22 00 0000 0004 0002 004f00ff 01ff40a0")})
    eq("ac ctrl", [(x["ac"], x["power"], x["mode"], x["fan"], x["sp_ctrl"], x["setpoint"]) for x in c["acs"]],
       [(0, "keep", "cool", "keep", "keep", 35.5), (1, "keep", "keep", "keep", "set", 26.0)])
    ab = read({"type": 0x1F, "data": h("ff11 00 18 554e4954000000000000000000000000 00 04 17 1d 10 1f 12 1f")})
    if ab["kind"] != "ability":
        errs.append(f"wire5 ability example: {ab}")
    else:
        x = ab["acs"][0]
        eq("ability", (x["name"], x["start_zone"], x["zone_count"], x["modes"], x["fans"], x["min_cool"], x["max_cool"], x["min_heat"], x["max_heat"]),
           ("UNIT", 0, 4, ["auto", "heat", "dry", "cool"], ["auto", "low", "medium", "high"], 16, 31, 18, 31))
    nm = read({"type": 0x1F, "data": h("ff13 00 06 4c6976696e67 01 07 4b69746368656e 02 07 426564726f6f6d")})
    eq("names", nm.get("names"), {0: "Living", 1: "Kitchen", 2: "Bedroom"})
    v = read({"type": 0x1F, "data": h("ff30 00 0b 312e302e332c312e302e33")})
    eq("version", (v.get("update"), v.get("versions")), (False, ["1.0.3", "1.0.3"]))
    t = read({"type": 0xC0, "data": h("33 00 0000 0009 0002 018203840500000000 040000173b00000000")})
    eq("timer", [(x["ac"], x["on"], x["off"]) for x in t["timers"]],
       [(1, {"disabled": True, "hour": 2, "minute": 3}, {"disabled": True, "hour": 4, "minute": 5}),
        (4, {"disabled": False, "hour": 0, "minute": 0}, {"disabled": False, "hour": 23, "minute": 59})])
    return errs
