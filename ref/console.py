"""Simulated AirTouch console (the peer), written from the vendor documents.

One class for both generations; `gen` selects the wire format.  It imports
nothing from pyairtouch.  It is a listener of sim.net.SimNet: on_connect /
on_data / on_eof.  All misbehaviour is switched on by scenario steps; the
console itself draws nothing at random.
"""

from __future__ import annotations

import copy

from . import wire4, wire5

DEFAULT_AC4 = {
    "power": "off", "mode": "auto", "fan": "auto", "spill": False, "timer": False,
    "setpoint": 24, "temp": 22.0, "error": 0,
}
DEFAULT_AC5 = {
    "power": "off", "mode": "auto", "fan": "auto", "setpoint": 24.0, "turbo": False,
    "bypass": False, "spill": False, "timer": False, "temp": 22.0, "error": 0,
}
DEFAULT_ZONE4 = {
    "power": "off", "method": "damper", "percent": 100, "battery_low": False,
    "turbo_support": False, "setpoint": 0, "sensor": False, "temp": None, "spill": False,
}
DEFAULT_ZONE5 = {
    "power": "off", "method": "damper", "percent": 100, "setpoint": None, "sensor": False,
    "temp": None, "spill": False, "battery_low": False,
}
TIMER_OFF = {"disabled": True, "hour": 0, "minute": 0}


def default_installation(gen: int) -> dict:
    if gen == 4:
        return {
            "gen": 4,
            "acs": [{"ac": 0, "name": "UNIT", "modes": list(wire4.MODE_BITS), "fans": list(wire4.FAN_BITS),
                     "min_sp": 16, "max_sp": 30, "start_group": 0, "group_count": 2, "groups": [0, 1]}],
            "zones": [{"zone": 0, "name": "Living"}, {"zone": 1, "name": "Kitchen"}],
            "ability_format": "bitmap",
            "versions": ["1.3.3"], "update": False,
        }
    return {
        "gen": 5,
        "acs": [{"ac": 0, "name": "UNIT", "modes": list(wire5.MODE_BITS), "fans": list(wire5.FAN_BITS),
                 "min_cool": 16, "max_cool": 31, "min_heat": 18, "max_heat": 30, "start_zone": 0, "zone_count": 2}],
        "zones": [{"zone": 0, "name": "Living"}, {"zone": 1, "name": "Kitchen"}],
        "versions": ["1.0.3"], "update": False,
        "ac_stride": 10, "zone_stride": 8, "timer_stride": 9,
    }


class Console:
    def __init__(self, net, inst: dict, trace) -> None:
        self.net = net
        self.trace = trace
        self.inst = inst
        self.gen = inst["gen"]
        self.w = wire4 if self.gen == 4 else wire5
        self.ac: dict[int, dict] = {}
        self.zone: dict[int, dict] = {}
        self.timer: dict[int, dict] = {}
        self.errtext: dict[int, str | None] = {}
        self.foreign: dict[str, dict[int, dict]] = {"ac": {}, "zone": {}}
        self.unreported: set = set()  # zones that are named but (for now) missing from every zone / group status frame
        self.report_foreign = False  # True: the full status answers also list the foreign records, in front of the known ones
        self.reset_state()
        self.rx: list[dict] = []  # every client frame: {seq,t,link,frame,reading}
        self.rx_bad: list[dict] = []
        self.tx: list[dict] = []  # every frame sent: {seq,t,link,raw,reading}
        self.links: list = []
        self.mute: set[str] = set()  # request kinds that are not answered
        self.silent = False
        self.answer_delay = 0.0
        self.extras: dict[str, dict] = {}  # kind -> {"before": [bytes], "after": [bytes]}
        self.on_frame = None  # callback(reading, entry)
        self.answered: list[tuple] = []
        self.pid = 0x40
        self.apply_controls = True
        self.ignore_controls: set[str] = set()  # control kinds the console receives but does not act on (no status follows)
        self.scripts: dict[str, list] = {}  # request kind -> per-request actions: "prompt" | ["late", d] | "never"

    # -- state -----------------------------------------------------------------
    def reset_state(self) -> None:
        inst = self.inst
        d_ac = DEFAULT_AC4 if self.gen == 4 else DEFAULT_AC5
        d_zone = DEFAULT_ZONE4 if self.gen == 4 else DEFAULT_ZONE5
        self.ac = {a["ac"]: dict(d_ac, ac=a["ac"], **a.get("state", {})) for a in inst["acs"]}
        key = "group" if self.gen == 4 else "zone"
        self.zone = {z["zone"]: dict(d_zone, **{key: z["zone"]}, **z.get("state", {})) for z in inst["zones"]}
        self.timer = {a["ac"]: {"ac": a["ac"], "on": dict(TIMER_OFF), "off": dict(TIMER_OFF), **copy.deepcopy(a.get("timer", {}))} for a in inst["acs"]}
        self.errtext = {a["ac"]: a.get("errtext") for a in inst["acs"]}

    def set_installation(self, inst: dict) -> None:
        self.inst = inst
        self.reset_state()

    # -- listener ----------------------------------------------------------------
    def on_connect(self, link) -> None:
        self.links.append(link)
        link.user["buf"] = bytearray()
        link.user["consumed"] = 0
        link.user["dead"] = False

    def on_eof(self, link) -> None:
        link.user["eof"] = True

    def on_data(self, link, data: bytes) -> None:
        u = link.user
        if u["dead"]:
            return
        u["buf"] += data
        frames, verdict, consumed = self.w.parse_stream(bytes(u["buf"]))
        for fr in frames:
            self._client_frame(link, fr)
        if verdict.startswith("bad"):
            u["dead"] = True
            self.rx_bad.append({"t": self.net.loop._vtime, "link": link.id, "why": verdict, "at": u["consumed"] + consumed,
                                "bytes": bytes(u["buf"][consumed:consumed + 64]).hex()})
            self.trace.add("console.rx_bad", link=link.id, why=verdict)
            return
        del u["buf"][:consumed]
        u["consumed"] += consumed

    def _client_frame(self, link, fr: dict) -> None:
        reading = self.w.read(fr)
        seq = self.trace.add("console.rx", link=link.id, k=reading["kind"], pid=fr["pid"], raw=fr["raw"].hex())
        entry = {"seq": seq, "t": self.net.loop._vtime, "link": link.id, "frame": fr, "reading": reading}
        self.rx.append(entry)
        if self.on_frame is not None:
            self.on_frame(reading, entry)
        if self.silent:
            return
        kind = reading["kind"]
        if kind in self.mute:
            return
        delay = self.answer_delay
        script = self.scripts.get(kind)
        if script:
            act = script.pop(0)
            if act == "never":
                self.trace.add("console.unanswered", k=kind)
                return
            if isinstance(act, (list, tuple)) and act[0] == "late":
                delay = act[1]
        replies = self._react(fr, reading)
        if replies is None:
            return
        ex = self.extras.get(kind)
        out = []
        if ex:
            out += list(ex.get("before", ()))
        out += replies
        if ex:
            out += list(ex.get("after", ()))
            if ex.get("once"):
                del self.extras[kind]
        self.answered.append((kind, self.net.loop._vtime, link.id))
        if delay > 0:
            self.net.loop.sim_after(delay, self._send_all, link, out)
        else:
            self._send_all(link, out)

    def _send_all(self, link, frames) -> None:
        for raw in frames:
            self.send_raw(link, raw)

    def send_raw(self, link, raw: bytes, chunks=None, gaps=None) -> None:
        if link is None or link.server_closed:
            return
        fr, verdict, _ = self.w.parse_stream(raw)
        kind = self.w.read(fr[0])["kind"] if verdict == "clean" and len(fr) == 1 else "raw"
        seq = self.trace.add("console.tx", link=link.id, k=kind, raw=raw.hex())
        self.tx.append({"seq": seq, "t": self.net.loop._vtime, "link": link.id, "raw": raw, "kind": kind})
        link.send(raw, chunks=chunks, gaps=gaps)

    def next_pid(self) -> int:
        self.pid = (self.pid + 1) & 0xFF
        return self.pid

    # -- frame builders ------------------------------------------------------------
    def f_version(self, pid: int) -> bytes:
        sep = "|" if self.gen == 4 else ","
        return self.w.f_ext(pid, self.w.X_VERSION, wire4.enc_version(self.inst["update"], self.inst["versions"], sep))

    def f_names(self, pid: int, only=None) -> bytes:
        names = {z["zone"]: z["name"] for z in self.inst["zones"] if only is None or z["zone"] == only}
        return self.w.f_ext(pid, self.w.X_NAMES, self.w.enc_names(names))

    def f_ability(self, pid: int, only=None) -> bytes:
        body = b""
        for a in self.inst["acs"]:
            if only is not None and a["ac"] != only:
                continue
            if self.gen == 4:
                body += wire4.enc_ability_record(a, with_bitmap=self.inst.get("ability_format", "bitmap") == "bitmap")
            else:
                body += wire5.enc_ability_record(a)
        return self.w.f_ext(pid, self.w.X_ABILITY, body)

    def _rec(self, what: str, i: int) -> dict:
        """State of entity i; `foreign` holds records of entities the installation does not contain
        (a console may report them: the client has to skip exactly those records)."""
        own = self.ac if what == "ac" else self.zone
        if i in own:
            return own[i]
        return self.foreign[what][i]

    def f_ac_status(self, pid: int, acs=None) -> bytes:
        ids = sorted(self.ac) if acs is None else list(acs)
        if acs is None and self.report_foreign:
            ids = sorted(i for i in self.foreign["ac"] if i not in self.ac and (self.gen == 5 or i < 4)) + ids
        if self.gen == 4:
            return wire4.f_status(pid, wire4.T_AC_STATUS, b"".join(wire4.enc_ac_status_record(self._rec("ac", i)) for i in ids))
        stride = self.inst.get("ac_stride", 10)
        return wire5.f_cs(pid, wire5.S_AC_STATUS, [wire5.enc_ac_status_record(self._rec("ac", i), stride) for i in ids], rlen=stride)

    def f_zone_status(self, pid: int, zones=None) -> bytes:
        ids = sorted(self.zone) if zones is None else list(zones)
        ids = [i for i in ids if i not in self.unreported]
        if zones is None and self.report_foreign:
            ids = sorted(i for i in self.foreign["zone"] if i not in self.zone) + ids
        if self.gen == 4:
            return wire4.f_status(pid, wire4.T_GROUP_STATUS, b"".join(wire4.enc_group_status_record(self._rec("zone", i)) for i in ids))
        stride = self.inst.get("zone_stride", 8)
        return wire5.f_cs(pid, wire5.S_ZONE_STATUS, [wire5.enc_zone_status_record(self._rec("zone", i), stride) for i in ids], rlen=stride)

    def f_timer_status(self, pid: int, acs=None) -> bytes:
        if self.gen == 4:
            recs = {i: t for i, t in self.timer.items() if i < 4}
            return wire4.f_status(pid, wire4.T_TIMER_STATUS, wire4.enc_timer_records(recs))
        ids = sorted(self.timer) if acs is None else list(acs)
        stride = self.inst.get("timer_stride", 9)
        return wire5.f_cs(pid, wire5.S_TIMER_STATUS, [wire5.enc_timer_record(self.timer[i], stride) for i in ids], rlen=stride)

    def f_error_info(self, pid: int, ac: int) -> bytes:
        text = self.errtext.get(ac)
        b = text.encode("utf-8") if text else b""
        return self.w.f_ext(pid, self.w.X_ERR, bytes((ac, len(b))) + b)

    def f_echo(self, fr: dict) -> bytes:
        """AT5 zero-zone behaviour: the request comes back with to=0xB0."""
        frm = wire5.ADDR_CONSOLE_EXT if fr["type"] == wire5.T_EXT else wire5.ADDR_CONSOLE
        return wire5.frame(wire5.ADDR_CLIENT, frm, fr["pid"], fr["type"], fr["data"])

    # -- request handling -----------------------------------------------------------
    def _react(self, fr: dict, r: dict):
        k = r["kind"]
        pid = fr["pid"]
        zero_echo = self.gen == 5 and not self.inst["zones"] and self.inst.get("zero_zone_echo", True)
        if k == "version_request":
            return [self.f_version(pid)]
        if k == "names_request":
            which = r.get("group", r.get("zone"))
            if zero_echo:
                return [self.f_echo(fr)]
            return [self.f_names(pid, None if which == "all" else which)]
        if k == "ability_request":
            return [self.f_ability(pid, None if r["ac"] == "all" else r["ac"])]
        if k == "ac_status_request":
            return [self.f_ac_status(pid)]
        if k == "timer_status_request":
            return [self.f_timer_status(pid)]
        if k in ("group_status_request", "zone_status_request"):
            if zero_echo:
                return [self.f_echo(fr)]
            return [self.f_zone_status(pid)]
        if k == "error_info_request":
            return [self.f_error_info(pid, r["ac"])]
        if not self.apply_controls or k in self.ignore_controls:
            return None
        if k == "group_control":
            z = self.zone.get(r["group"])
            if z is None:
                return None
            self.apply_zone_control(z, r)
            return [self.f_zone_status(pid, [r["group"]])]
        if k == "zone_control":
            touched = []
            for c in r["zones"]:
                z = self.zone.get(c["zone"])
                if z is not None:
                    self.apply_zone_control(z, c)
                    touched.append(c["zone"])
            return [self.f_zone_status(pid, touched)] if touched else None
        if k == "ac_control":
            recs = [r] if self.gen == 4 else r["acs"]
            touched = []
            for c in recs:
                a = self.ac.get(c["ac"])
                if a is not None:
                    self.apply_ac_control(a, c)
                    touched.append(c["ac"])
            return [self.f_ac_status(pid, touched)] if touched else None
        if k == "timer_control":
            zero = {"disabled": False, "hour": 0, "minute": 0}
            for t in r["timers"]:
                if self.gen == 4 and t["ac"] not in self.timer:
                    continue
                if self.gen == 4 and t["on"] == zero and t["off"] == zero and len(r["timers"]) > 1:
                    # AT4 0x36 always carries four implicit records; an all-zero record is read as
                    # "AC not named in this command" (spec/undocumented_messages.md)
                    continue
                if t["ac"] in self.timer:
                    self.timer[t["ac"]] = {"ac": t["ac"], "on": dict(t["on"]), "off": dict(t["off"])}
                    self._sync_timer_flag(t["ac"])
            return [self.f_timer_status(pid)]
        if k == "quick_timer":
            t = self.timer.get(r["ac"])
            if t is None or r["type"] not in ("on", "off"):
                return None
            t[r["type"]] = {"disabled": False, "hour": r["hours"] % 24, "minute": r["minutes"] % 60}
            self._sync_timer_flag(r["ac"])
            return [self.f_timer_status(pid)]
        return None

    def _sync_timer_flag(self, ac: int) -> None:
        t = self.timer[ac]
        self.ac[ac]["timer"] = not (t["on"]["disabled"] and t["off"]["disabled"])

    # -- control semantics, as the documents read -------------------------------------
    def apply_zone_control(self, z: dict, c: dict) -> None:
        p = c["power"]
        if p == "next":
            z["power"] = {"off": "on", "on": "off", "turbo": "off"}[z["power"]]
        elif p in ("off", "on", "turbo"):
            z["power"] = p
        m = c["method"]
        if m == "change":
            z["method"] = "damper" if z["method"] == "temperature" else "temperature"
        elif m in ("damper", "temperature"):
            z["method"] = m
        s = c["setting"]
        step_t = 1 if self.gen == 4 else 1.0
        if s in ("dec", "inc"):
            sign = -1 if s == "dec" else 1
            if z["method"] == "temperature":
                if z["setpoint"] is not None:
                    z["setpoint"] = z["setpoint"] + sign * step_t
            else:
                z["percent"] = max(0, min(100, z["percent"] + sign * 5))
        elif s == "percent":
            z["percent"] = c["value"]
        elif s == "setpoint":
            z["setpoint"] = c["value"] if self.gen == 4 else (c["value"] + 100) / 10

    def apply_ac_control(self, a: dict, c: dict) -> None:
        p = c["power"]
        if p == "toggle":
            a["power"] = "off" if a["power"] in ("on", "away_on") else "on"
        elif p in ("off", "on"):
            a["power"] = p
        elif p == "away":
            a["power"] = "away_on" if a["power"] in ("on", "away_on") else "away_off"
        elif p == "sleep":
            a["power"] = "sleep"
        if c["mode"] != "keep":
            a["mode"] = c["mode"]
        if c["fan"] != "keep":
            a["fan"] = {"intelligent_auto": "ia_low"}.get(c["fan"], c["fan"])
        if self.gen == 4:
            if c["sp_type"] == "set":
                a["setpoint"] = c["sp_value"]
            elif c["sp_type"] == "dec":
                a["setpoint"] -= 1
            elif c["sp_type"] == "inc":
                a["setpoint"] += 1
        elif c["sp_ctrl"] == "set":
            a["setpoint"] = c["setpoint"]

    # -- spontaneous behaviour ------------------------------------------------------------
    def current_link(self):
        for link in reversed(self.links):
            if not link.server_closed and not link.client_closed:
                return link
        return None

    def publish(self, what: str, ids=None, link=None) -> None:
        link = link or self.current_link()
        if link is None:
            return
        pid = self.next_pid()
        if what == "ac":
            self.send_raw(link, self.f_ac_status(pid, ids))
        elif what == "zone":
            self.send_raw(link, self.f_zone_status(pid, ids))
        elif what == "timer":
            self.send_raw(link, self.f_timer_status(pid, ids))
        elif what == "version":
            self.send_raw(link, self.f_version(pid))
        elif what == "error":
            for i in ids if ids is not None else sorted(self.ac):
                self.send_raw(link, self.f_error_info(pid, i))
