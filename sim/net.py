"""Simulated network: TCP links with fault injection, and UDP endpoints.

SimTransport mirrors the observable control flow of
asyncio.selector_events._SelectorSocketTransport (CPython 3.12): what
write()/close()/abort() do to _closing/_conn_lost, when connection_lost is
scheduled, how a peer FIN / RST / write error reaches the protocol.  The real
StreamReader/StreamWriter/StreamReaderProtocol run on top of it.
"""

from __future__ import annotations

import asyncio
import collections
import errno
from asyncio import transports

from .loop import SimHarnessError


class Fate:
    """What happens to one connection attempt."""

    __slots__ = ("kind", "latency")

    def __init__(self, kind: str = "accept", latency: float = 0.0) -> None:
        self.kind = kind  # accept | refuse | unreachable | timeout
        self.latency = latency

    def as_tuple(self):
        return (self.kind, self.latency)


_ERRNO = {
    "refuse": (ConnectionRefusedError, errno.ECONNREFUSED, "Connect call failed"),
    "unreachable": (OSError, errno.EHOSTUNREACH, "No route to host"),
    "timeout": (TimeoutError, errno.ETIMEDOUT, "Connection timed out"),
}

_WRITE_ERR = {
    "EPIPE": (BrokenPipeError, errno.EPIPE, "Broken pipe"),
    "ECONNRESET": (ConnectionResetError, errno.ECONNRESET, "Connection reset by peer"),
    "ETIMEDOUT": (TimeoutError, errno.ETIMEDOUT, "Connection timed out"),
    "EHOSTUNREACH": (OSError, errno.EHOSTUNREACH, "No route to host"),
    "ENETUNREACH": (OSError, errno.ENETUNREACH, "Network is unreachable"),
}


class Link:
    """One TCP connection between the client and a listener."""

    def __init__(self, net, lid: int, host: str, port: int, listener) -> None:
        self.net = net
        self.id = lid
        self.host = host
        self.port = port
        self.listener = listener
        self.transport: SimTransport | None = None
        self.t_accept = None
        self.made = False  # protocol.connection_made delivered
        self.lost = False  # protocol.connection_lost delivered
        self.fin_delivered = False  # the peer's FIN has reached the client: nothing can follow it
        self.client_closed = False  # client side called close()/abort() or was force-closed
        self.server_closed = False  # server side sent FIN or RST
        self.blackhole = False
        self.latency = net.latency
        self._c2s_last = 0.0
        self._s2c_last = 0.0
        self.rx = bytearray()  # everything the server received
        self.tx_writes: list[tuple[int, float, bytes]] = []  # (seq, t, data) client writes
        self.user = {}  # listener's per-connection state

    # -- server side API ---------------------------------------------------
    def send(self, data: bytes, chunks: list[bytes] | None = None, gaps=None) -> None:
        """Server -> client.  `chunks` overrides the net's segmenter."""
        if self.server_closed:
            return
        net = self.net
        if chunks is None:
            chunks = net.segment(data)
        t = max(net.loop._vtime + self.latency, self._s2c_last)
        for i, ch in enumerate(chunks):
            if gaps is not None and i < len(gaps):
                t += gaps[i]
            elif i > 0:
                t += net.chunk_gap
            net.loop.sim_at(t, self._deliver_s2c, bytes(ch))
        self._s2c_last = t

    def _deliver_s2c(self, chunk: bytes) -> None:
        tr = self.transport
        if self.blackhole:
            self.net.trace.count("net.blackholed_rx")
            return
        if tr is None or tr._conn_lost or tr._closing:
            return
        if self.fin_delivered:
            # the peer's FIN has been delivered: bytes "sent" in that same instant but ordered behind it do not exist on a
            # TCP stream (a scenario step racing a delayed close; feeding data after EOF is impossible on a real socket)
            self.net.trace.count("net.data_after_fin_dropped")
            return
        self.net.trace.add("rx.chunk", link=self.id, n=len(chunk), data=chunk.hex())
        tr._data_from_peer(chunk)

    def fin(self) -> None:
        if self.server_closed:
            return
        self.server_closed = True
        t = max(self.net.loop._vtime + self.latency, self._s2c_last)
        self.net.loop.sim_at(t, self._deliver_fin)

    def fin_now(self) -> None:
        """Peer FIN delivered without link latency (the peer closed while accepting)."""
        if self.server_closed:
            return
        self.server_closed = True
        self._deliver_fin()

    def rst_now(self, err: str = "ECONNRESET") -> None:
        """Peer RST delivered without link latency (accepted and reset at once: a console at its connection limit)."""
        if self.server_closed and self.lost:
            return
        self.server_closed = True
        self._deliver_rst(err)

    def _deliver_fin(self) -> None:
        tr = self.transport
        if self.blackhole or tr is None or tr._conn_lost or tr._closing:
            return
        self.net.trace.add("rx.fin", link=self.id)
        self.fin_delivered = True
        tr._eof_from_peer()

    def rst(self, err: str = "ECONNRESET") -> None:
        if self.server_closed and self.lost:
            return
        self.server_closed = True
        t = max(self.net.loop._vtime + self.latency, self._s2c_last)
        self.net.loop.sim_at(t, self._deliver_rst, err)

    def _deliver_rst(self, err: str) -> None:
        tr = self.transport
        if self.blackhole or tr is None or tr._conn_lost:
            return
        if tr._peer_eof:
            # As the selector transport: after eof_received() returned True the read side is no
            # longer polled, so a later RST is only noticed by the next write.
            self.net.trace.add("rx.rst_after_eof", link=self.id)
            tr._dead_on_write = err
            return
        self.net.trace.add("rx.rst", link=self.id)
        cls, no, msg = _WRITE_ERR[err]
        tr._force_close(cls(no, msg))

    # -- client -> server ------------------------------------------------------
    def _from_client(self, data: bytes) -> None:
        if self.blackhole:
            self.net.trace.count("net.blackholed_tx")
            return
        t = max(self.net.loop._vtime + self.latency, self._c2s_last)
        self._c2s_last = t
        self.net.loop.sim_at(t, self._deliver_c2s, data)

    def _deliver_c2s(self, data: bytes) -> None:
        if self.server_closed:
            return
        self.rx += data
        if self.listener is not None:
            self.listener.on_data(self, data)

    def _client_gone(self) -> None:
        if self.listener is not None and not self.server_closed:
            t = max(self.net.loop._vtime + self.latency, self._c2s_last)
            self.net.loop.sim_at(t, self._deliver_client_gone)

    def _deliver_client_gone(self) -> None:
        if self.listener is not None and not self.server_closed:
            self.listener.on_eof(self)


class SimTransport(transports._FlowControlMixin, transports.Transport):
    def __init__(self, net, link: Link, protocol, extra=None) -> None:
        super().__init__(extra, net.loop)
        self._net = net
        self._link = link
        self._protocol = protocol
        self._protocol_connected = True
        self._buffer = collections.deque()
        self._conn_lost = 0
        self._closing = False
        self._paused = False
        self._eof = False
        self._stalled = False
        self._rx_pending: list[bytes] = []
        self._peer_eof_pending = False
        self._peer_eof = False
        self._dead_on_write = None
        self._extra.setdefault("peername", (link.host, link.port))
        self._extra.setdefault("sockname", ("10.0.0.2", 40000 + link.id))
        self._extra.setdefault("socket", None)

    # -- Transport API -------------------------------------------------------
    def get_protocol(self):
        return self._protocol

    def set_protocol(self, protocol) -> None:
        self._protocol = protocol
        self._protocol_connected = True

    def is_closing(self) -> bool:
        return self._closing

    def is_reading(self) -> bool:
        return not self._closing and not self._paused

    def pause_reading(self) -> None:
        if not self.is_reading():
            return
        self._paused = True

    def resume_reading(self) -> None:
        if self._closing or not self._paused:
            return
        self._paused = False
        pending, self._rx_pending = self._rx_pending, []
        for ch in pending:
            self._data_from_peer(ch)
        if self._peer_eof_pending and not self._paused:
            self._peer_eof_pending = False
            self._eof_from_peer()

    def get_write_buffer_size(self) -> int:
        return sum(len(b) for b in self._buffer)

    def can_write_eof(self) -> bool:
        return True

    def write_eof(self) -> None:
        if self._closing or self._eof:
            return
        self._eof = True
        self._link._client_gone()

    def write(self, data) -> None:
        if not isinstance(data, (bytes, bytearray, memoryview)):
            raise TypeError(
                f"data argument must be a bytes-like object, not {type(data).__name__!r}"
            )
        if self._eof:
            raise RuntimeError("Cannot call write() after write_eof()")
        if not data:
            return
        data = bytes(data)
        net = self._net
        if self._conn_lost:
            self._conn_lost += 1
            net.trace.add("tx.dropped", link=self._link.id, n=len(data), data=data.hex())
            return
        net.write_count += 1
        if self._dead_on_write is not None:
            cls, no, msg = _WRITE_ERR[self._dead_on_write]
            net.trace.add("tx.failed", link=self._link.id, n=len(data), data=data.hex())
            self._force_close(cls(no, msg))
            return
        # Fault: the n-th write from now fails (EPIPE/ECONNRESET/ETIMEDOUT).
        if net.write_faults and net.write_faults[0][0] <= 1:
            _, err = net.write_faults.pop(0)
            for wf in net.write_faults:
                wf[0] -= 1
            cls, no, msg = _WRITE_ERR[err]
            net.trace.add("fault.fired", k="tcp.write_error", link=self._link.id, err=err)
            net.fired("tcp.write_error")
            net.trace.add("tx.failed", link=self._link.id, n=len(data), data=data.hex())
            self._force_close(cls(no, msg))
            return
        for wf in net.write_faults:
            wf[0] -= 1
        seq = net.trace.add("tx.write", link=self._link.id, n=len(data), data=data.hex())
        self._link.tx_writes.append((seq, net.loop._vtime, data))
        if self._stalled or self._buffer:
            self._buffer.append(data)
            self._maybe_pause_protocol()
            return
        self._link._from_client(data)

    def close(self) -> None:
        if self._closing:
            return
        self._closing = True
        self._link.client_closed = True
        self._net.trace.add("conn.close", link=self._link.id)
        hook = self._net.at_client_close.pop(0) if self._net.at_client_close else None
        if hook is not None and hook[0] == "before":
            # something else in the process becomes runnable in this very pass, ahead of the transport's connection_lost
            self._net.fired("sched.call_as_client_closes")
            hook[1]()
        if not self._buffer:
            self._conn_lost += 1
            self._loop.call_soon(self._call_connection_lost, None)
            self._link._client_gone()
        if hook is not None and hook[0] != "before":
            self._net.fired("sched.call_as_client_closes")
            hook[1]()

    def abort(self) -> None:
        self._force_close(None)

    def __del__(self) -> None:  # no ResourceWarning noise: leaks are judged by the oracles
        pass

    # -- internals mirroring the selector transport ------------------------------
    def _force_close(self, exc) -> None:
        if self._conn_lost:
            return
        if self._buffer:
            self._buffer.clear()
        if not self._closing:
            self._closing = True
        self._link.client_closed = True
        self._conn_lost += 1
        self._net.trace.add(
            "conn.force_close", link=self._link.id, exc=type(exc).__name__ if exc else None
        )
        self._loop.call_soon(self._call_connection_lost, exc)
        self._link._client_gone()

    def _call_connection_lost(self, exc) -> None:
        link = self._link
        try:
            if self._protocol_connected:
                self._protocol.connection_lost(exc)
        finally:
            link.lost = True
            self._net.trace.add(
                "conn.lost", link=link.id, exc=type(exc).__name__ if exc else None
            )
            self._protocol = None

    def _data_from_peer(self, chunk: bytes) -> None:
        if self._conn_lost or self._closing:
            return
        if self._paused:
            self._rx_pending.append(chunk)
            return
        try:
            self._protocol.data_received(chunk)
        except (SystemExit, KeyboardInterrupt):
            raise
        except BaseException as exc:  # noqa: BLE001 - as _read_ready__data_received
            self._fatal_error(exc, "Fatal error: protocol.data_received() call failed.")

    def _eof_from_peer(self) -> None:
        if self._conn_lost or self._closing:
            return
        if self._paused:
            self._peer_eof_pending = True
            return
        self._peer_eof = True
        try:
            keep_open = self._protocol.eof_received()
        except (SystemExit, KeyboardInterrupt):
            raise
        except BaseException as exc:  # noqa: BLE001
            self._fatal_error(exc, "Fatal error: protocol.eof_received() call failed.")
            return
        if not keep_open:
            self.close()

    def _fatal_error(self, exc, message="Fatal error on transport") -> None:
        if not isinstance(exc, OSError):
            self._loop.call_exception_handler(
                {
                    "message": message,
                    "exception": exc,
                    "transport": self,
                    "protocol": self._protocol,
                }
            )
        self._force_close(exc)

    # -- simulator controls ----------------------------------------------------------
    def _set_stall(self, on: bool) -> None:
        if self._conn_lost:
            return
        if on and not self._stalled:
            self._stalled = True
            if not self._protocol_paused:
                self._protocol_paused = True
                try:
                    self._protocol.pause_writing()
                except Exception as exc:  # noqa: BLE001
                    self._loop.call_exception_handler(
                        {"message": "protocol.pause_writing() failed", "exception": exc}
                    )
        elif not on and self._stalled:
            self._stalled = False
            while self._buffer:
                self._link._from_client(self._buffer.popleft())
            if self._protocol_paused:
                self._protocol_paused = False
                try:
                    self._protocol.resume_writing()
                except Exception as exc:  # noqa: BLE001
                    self._loop.call_exception_handler(
                        {"message": "protocol.resume_writing() failed", "exception": exc}
                    )
            if self._closing and not self._conn_lost:
                self._conn_lost += 1
                self._loop.call_soon(self._call_connection_lost, None)
                self._link._client_gone()


class SimNet:
    def __init__(self, loop, trace) -> None:
        self.loop = loop
        self.trace = trace
        loop.net = self
        self.listeners: dict[tuple[str, int], object] = {}
        self.fates: collections.deque[Fate] = collections.deque()
        self.default_fate = Fate("accept", 0.0)
        self.latency = 2.0**-7
        self.chunk_gap = 0.0
        self.segment = lambda data: [data]
        self.links: list[Link] = []
        self.attempts = 0
        self.write_count = 0
        self.write_faults: list[list] = []  # [[countdown, err], ...]
        self.stall_new_links: list[float] = []  # durations: the next accepted links start stalled
        self.fin_new_links: list[float] = []  # delays: the next accepted links are closed by the peer right away
        self.at_client_close: list = []  # (order, callback): run callback when the client next closes a transport, queued before / after its connection_lost
        self.before_accept: list = []  # (passes, callback): run callback when the next accepted attempt is about to complete, complete `passes` loop passes later
        self.faults_fired: dict[str, int] = {}
        self.violations: list[dict] = []
        self.udp: list = []
        self.udp_handler = None

    def fired(self, kind: str, n: int = 1) -> None:
        self.faults_fired[kind] = self.faults_fired.get(kind, 0) + n

    def listen(self, host: str, port: int, listener) -> None:
        self.listeners[(host, port)] = listener

    def open_links(self) -> list[Link]:
        return [l for l in self.links if l.t_accept is not None and not l.client_closed]

    def live_links(self) -> list[Link]:
        """Links whose transport exists and has not delivered connection_lost."""
        return [l for l in self.links if l.t_accept is not None and not l.lost]

    def current_link(self) -> Link | None:
        ol = self.open_links()
        return ol[-1] if ol else None

    def fail_write(self, nth: int = 1, err: str = "EPIPE") -> None:
        self.write_faults.append([nth, err])
        self.write_faults.sort(key=lambda wf: wf[0])

    # -- TCP ---------------------------------------------------------------------
    async def create_connection(self, protocol_factory, host, port, **kw):
        if kw.get("ssl"):
            raise SimHarnessError("ssl not simulated")
        loop = self.loop
        self.attempts += 1
        attempt = self.attempts
        fate = self.fates.popleft() if self.fates else self.default_fate
        listener = self.listeners.get((host, port))
        kind = fate.kind
        if listener is None and kind == "accept":
            kind = "refuse"
        self.trace.add(
            "net.connect_attempt", n=attempt, host=host, port=port, k=kind, lat=fate.latency
        )
        if kind != "accept":
            self.fired("tcp." + kind)
        elif fate.latency > 0:
            self.fired("tcp.connect_latency")
        waiter = loop.create_future()
        ev = loop.sim_after(fate.latency, _set_result, waiter)
        try:
            await waiter
        except BaseException:
            loop.sim_cancel(ev)
            self.trace.add("net.connect_cancelled", n=attempt)
            raise
        if kind != "accept":
            cls, no, msg = _ERRNO[kind]
            self.trace.add("net.connect_result", n=attempt, ok=False, k=kind)
            raise cls(no, f"{msg} ('{host}', {port})")
        if self.before_accept:
            # something else happens in the process a few loop passes before this attempt completes (when an attempt completes
            # is the network's choice, so "k passes after the user's call" is as legal an instant as any other)
            passes, cb = self.before_accept.pop(0)
            self.trace.add("net.before_accept", n=attempt, passes=passes)
            self.fired("sched.call_just_before_connect_completes")
            cb()
            for _ in range(passes):
                w = loop.create_future()
                loop.call_soon(_set_result, w)
                await w
        link = Link(self, len(self.links), host, port, listener)
        self.links.append(link)
        protocol = protocol_factory()
        transport = SimTransport(self, link, protocol)
        link.transport = transport
        link.t_accept = loop._vtime
        others = [l.id for l in self.links if l is not link and l.t_accept is not None and not l.client_closed]
        self.trace.add("net.connect_result", n=attempt, ok=True, link=link.id, others=tuple(others))
        if listener is not None:
            listener.on_connect(link)
        waiter2 = loop.create_future()

        def _made():
            protocol.connection_made(transport)
            link.made = True
            self.trace.add("conn.made", link=link.id)
            if self.fin_new_links:
                d = self.fin_new_links.pop(0)
                kind = "tcp.peer_rst" if isinstance(d, tuple) else "tcp.peer_fin"
                self.trace.add("fault.fired", k=kind, link=link.id)
                self.fired(kind)
                if isinstance(d, tuple):
                    loop.sim_after(d[1], link.rst_now)
                else:
                    loop.sim_after(d, link.fin_now)
            if self.stall_new_links:
                # flow control from the first byte: the peer's window is closed for a while
                dur = self.stall_new_links.pop(0)
                self.trace.add("fault.fired", k="tcp.stall", link=link.id)
                self.fired("tcp.stall")
                transport._set_stall(True)
                loop.sim_after(dur, transport._set_stall, False)

        loop.call_soon(_made)
        loop.call_soon(_set_result, waiter2)
        try:
            await waiter2
        except BaseException:
            transport.close()
            raise
        return transport, protocol

    # -- UDP -------------------------------------------------------------------------
    async def create_datagram_endpoint(self, protocol_factory, local_addr, remote_addr, **kw):
        sock = kw.get("sock")
        protocol = protocol_factory()
        tr = SimDatagramTransport(self, protocol, sock)
        self.udp.append(tr)
        waiter = self.loop.create_future()
        self.loop.call_soon(protocol.connection_made, tr)
        self.loop.call_soon(_set_result, waiter)
        try:
            await waiter
        except BaseException:
            tr.close()
            raise
        return tr, protocol


def _set_result(fut) -> None:
    if not fut.done():
        fut.set_result(None)


class FakeSocket:
    """Inert stand-in for socket.socket in the discovery module."""

    _next = 100

    def __init__(self, family=None, type=None, proto=None, **kw) -> None:  # noqa: A002
        self.family = family
        self.type = type
        self.proto = proto
        self.options = []
        self.bound = None
        self.closed = False
        FakeSocket._next += 1
        self._fd = FakeSocket._next

    def setsockopt(self, *a) -> None:
        self.options.append(a)

    def bind(self, addr) -> None:
        self.bound = addr

    def setblocking(self, flag) -> None:
        pass

    def fileno(self) -> int:
        return self._fd

    def close(self) -> None:
        self.closed = True

    def getsockname(self):
        return self.bound or ("0.0.0.0", 0)


class FakeSocketModule:
    """Replacement for the `socket` name inside pyairtouch.comms.discovery."""

    AF_INET = 2
    SOCK_DGRAM = 2
    IPPROTO_UDP = 17
    SOL_SOCKET = 1
    SO_BROADCAST = 6
    SO_REUSEADDR = 2

    def __init__(self) -> None:
        self.created: list[FakeSocket] = []

    def socket(self, *a, **kw) -> FakeSocket:
        s = FakeSocket(*a, **kw)
        self.created.append(s)
        return s


class SimDatagramTransport(transports.DatagramTransport):
    def __init__(self, net: SimNet, protocol, sock) -> None:
        super().__init__({"socket": sock})
        self._net = net
        self._protocol = protocol
        self._sock = sock
        self._closing = False
        self.sent: list[tuple[float, bytes, tuple]] = []
        self.local_port = sock.bound[1] if sock is not None and sock.bound else None

    def sendto(self, data, addr=None) -> None:
        if self._closing:
            return
        data = bytes(data)
        self.sent.append((self._net.loop._vtime, data, addr))
        self._net.trace.add("udp.sendto", port=self.local_port, data=data.hex(), addr=tuple(addr) if addr else None)
        if self._net.udp_handler is not None:
            self._net.udp_handler(self, data, addr)

    def is_closing(self) -> bool:
        return self._closing

    def close(self) -> None:
        if self._closing:
            return
        self._closing = True
        self._net.trace.add("udp.close", port=self.local_port)
        if self._sock is not None:
            self._sock.close()
        self._net.loop.call_soon(self._protocol.connection_lost, None)

    def abort(self) -> None:
        self.close()

    def deliver(self, data: bytes, addr) -> None:
        """Called from a simulator event: a datagram arrives."""
        if self._closing:
            self._net.trace.count("udp.after_close")
            return
        self._net.trace.add("udp.recv", port=self.local_port, data=data.hex(), addr=tuple(addr))
        # As _SelectorDatagramTransport._read_ready: the call is not guarded, an
        # exception propagates to Handle._run -> loop.call_exception_handler and
        # the transport stays open.
        self._protocol.datagram_received(data, addr)
