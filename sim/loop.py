"""SimLoop: an asyncio event loop with a virtual clock and a simulator event queue.

Everything above the selector is the real asyncio implementation (tasks,
futures, timers, streams).  What is replaced:

* time(): a virtual clock that only moves when nothing is ready to run; it
  jumps to the next loop timer or simulator event, so a 330 s timeout costs one
  iteration;
* _run_once(): the selector poll is replaced by the simulator event queue
  (network deliveries, connection completions, fault instants, workload steps);
* create_connection()/create_datagram_endpoint(): routed to the simulated
  network (sim/net.py);
* call_exception_handler(): records every context instead of logging.

The ready queue stays FIFO and one iteration runs only the handles that were
ready when it began, as in BaseEventLoop.  The only scheduling decision made
here is the order in which simulator events and loop timers that are due at the
same instant become ready (``tie`` callback, a recorded draw of the run's PRNG).
"""

from __future__ import annotations

import asyncio
import heapq
import weakref
from asyncio import base_events, events


class SimHarnessError(Exception):
    """The harness (not the code under test) is in a state it cannot handle."""


class SimQuiescent(SimHarnessError):
    """Nothing is runnable, no timer and no simulator event is pending."""


class SimStepCap(Exception):
    """The per-run cap on executed handles was reached (possible livelock)."""


EPS = 2.0**-20
TICK = 2.0**-10


class SimLoop(base_events.BaseEventLoop):
    def __init__(self, *, max_steps: int = 400_000, max_time: float = 1.0e7) -> None:
        super().__init__()
        self._vtime = 0.0
        self._clock_resolution = 2.0**-30
        self._sim_events: list = []  # heap of (when, seq, fn)
        self._sim_seq = 0
        self.steps = 0
        self.iterations = 0
        self.max_steps = max_steps
        self.max_time = max_time
        self.exceptions: list[dict] = []
        self.net = None  # set by SimNet
        self.tie = None  # callable(n_choices) -> int, set by the world
        self.iter_cost = 0.0  # virtual seconds per loop pass while the ready queue is not empty (0: instants are atomic)
        self.on_instant_end = None  # callable(t)
        self.on_timer_fired = None  # callable(handle)
        self._task_refs: list = []
        self._task_count = 0
        self.set_task_factory(self._make_task)

    # -- clock -----------------------------------------------------------
    def time(self) -> float:
        return self._vtime

    # -- simulator events --------------------------------------------------
    def sim_at(self, when: float, fn, *args) -> tuple:
        """Schedule fn(*args) as an I/O-like event at virtual time `when`."""
        if when < self._vtime:
            when = self._vtime
        self._sim_seq += 1
        ev = [when, self._sim_seq, fn, args, False]
        heapq.heappush(self._sim_events, ev)
        return ev

    def sim_after(self, delay: float, fn, *args):
        return self.sim_at(self._vtime + delay, fn, *args)

    @staticmethod
    def sim_cancel(ev) -> None:
        ev[4] = True

    def _next_sim_time(self):
        q = self._sim_events
        while q and q[0][4]:
            heapq.heappop(q)
        return q[0][0] if q else None

    # -- tasks -------------------------------------------------------------
    def _make_task(self, loop, coro, **kwargs):
        self._task_count += 1
        kwargs.setdefault("name", None)
        if kwargs["name"] is None:
            kwargs["name"] = f"t{self._task_count}"
        task = asyncio.Task(coro, loop=loop, **kwargs)
        task._sim_index = self._task_count
        self._task_refs.append(weakref.ref(task))
        return task

    def live_tasks(self) -> list:
        out = []
        for r in self._task_refs:
            t = r()
            if t is not None and not t.done():
                out.append(t)
        out.sort(key=lambda t: t._sim_index)
        return out

    def pending_timers(self) -> list:
        return sorted(
            (h for h in self._scheduled if not h._cancelled), key=lambda h: h._when
        )

    # -- the scheduler -------------------------------------------------------
    def _run_once(self) -> None:
        self.iterations += 1
        sched = self._scheduled
        while sched and sched[0]._cancelled:
            self._timer_cancelled_count -= 1
            handle = heapq.heappop(sched)
            handle._scheduled = False

        if not self._ready and not self._stopping:
            t_timer = sched[0]._when if sched else None
            t_sim = self._next_sim_time()
            if t_timer is None and t_sim is None:
                raise SimQuiescent("nothing runnable, no timer, no simulator event")
            if t_timer is None:
                nxt = t_sim
            elif t_sim is None:
                nxt = t_timer
            else:
                nxt = min(t_timer, t_sim)
            if nxt > self._vtime:
                if self.on_instant_end is not None:
                    self.on_instant_end(self._vtime)
                if nxt > self.max_time:
                    raise SimHarnessError(f"virtual time cap exceeded: {nxt}")
                self._vtime = nxt

        now = self._vtime
        # Simulator events (I/O-like) and loop timers due now.
        sim_due = []
        q = self._sim_events
        while q and (q[0][4] or q[0][0] <= now):
            ev = heapq.heappop(q)
            if not ev[4]:
                sim_due.append(ev)
        timers_due = []
        while sched and sched[0]._when <= now:
            handle = heapq.heappop(sched)
            handle._scheduled = False
            if handle._cancelled:
                self._timer_cancelled_count -= 1
                continue
            timers_due.append(handle)

        io_first = True
        if sim_due and timers_due and self.tie is not None:
            io_first = self.tie(2) == 0
        if io_first:
            for ev in sim_due:
                self._ready.append(events.Handle(ev[2], ev[3], self))
            self._ready.extend(timers_due)
        else:
            self._ready.extend(timers_due)
            for ev in sim_due:
                self._ready.append(events.Handle(ev[2], ev[3], self))
        if timers_due and self.on_timer_fired is not None:
            for h in timers_due:
                self.on_timer_fired(h)

        ntodo = len(self._ready)
        for _ in range(ntodo):
            handle = self._ready.popleft()
            if handle._cancelled:
                continue
            self.steps += 1
            if self.steps > self.max_steps:
                raise SimStepCap(f"more than {self.max_steps} handle executions")
            handle._run()
        handle = None
        if self.iter_cost and self._ready:
            # optional model of "a loop pass takes time": while work is pending inside an instant the clock creeps on, so a
            # timer that falls due a few passes after an event can fire in the middle of what that event started
            self._vtime += self.iter_cost

    # -- selector stubs ------------------------------------------------------
    def _process_events(self, event_list) -> None:  # pragma: no cover
        pass

    def _write_to_self(self) -> None:
        pass

    def _make_self_pipe(self) -> None:  # pragma: no cover
        pass

    def _close_self_pipe(self) -> None:  # pragma: no cover
        pass

    # -- exceptions ------------------------------------------------------------
    def call_exception_handler(self, context) -> None:
        exc = context.get("exception")
        self.exceptions.append(
            {
                "t": self._vtime,
                "message": str(context.get("message")),
                "exception": type(exc).__name__ if exc is not None else None,
                "detail": repr(exc) if exc is not None else None,
            }
        )

    # -- network ---------------------------------------------------------------
    async def create_connection(self, protocol_factory, host=None, port=None, **kw):
        if self.net is None:
            raise SimHarnessError("no simulated network attached")
        net = getattr(self, "nets_by_host", {}).get(host, self.net)  # a second, separately simulated system (other host)
        return await net.create_connection(protocol_factory, host, port, **kw)

    async def create_datagram_endpoint(
        self, protocol_factory, local_addr=None, remote_addr=None, **kw
    ):
        if self.net is None:
            raise SimHarnessError("no simulated network attached")
        return await self.net.create_datagram_endpoint(
            protocol_factory, local_addr, remote_addr, **kw
        )

    async def getaddrinfo(self, *a, **kw):  # pragma: no cover
        raise SimHarnessError("getaddrinfo reached: a real network call escaped")

    def run_in_executor(self, executor, func, *args):
        """A simulated worker thread: the job runs inside the loop thread at a later, drawn instant (0, one epsilon or 1/64 s
        of virtual time after the call) and its result reaches the future the way a real executor's would. No real thread is
        started, so the interleaving stays a function of the run's PRNG."""
        fut = self.create_future()
        delays = (0.0, 2.0 ** -20, 2.0 ** -6)
        delay = delays[self.tie(len(delays))] if self.tie is not None else 0.0
        self.executor_jobs = getattr(self, "executor_jobs", 0) + 1

        def job():
            if fut.cancelled():
                return
            try:
                fut.set_result(func(*args))
            except BaseException as e:  # noqa: BLE001 - handed to the awaiting coroutine, as concurrent.futures does
                fut.set_exception(e)

        self.call_later(delay, job)
        return fut
