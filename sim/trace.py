"""Sequence-numbered event log of one simulated run.

Every record is (seq, t, kind, fields) with plain values only (ints, floats,
strs, hex strings, tuples): no object addresses, task names or wall-clock
values, so that the SHA-256 of the log is a pure function of scenario + code.
"""

from __future__ import annotations

import hashlib


class Trace:
    __slots__ = ("events", "loop", "listeners", "counters")

    def __init__(self, loop) -> None:
        self.events: list[tuple] = []
        self.loop = loop
        self.listeners: list = []
        self.counters: dict[str, int] = {}

    def add(self, kind: str, **fields) -> int:
        seq = len(self.events)
        ev = (seq, self.loop._vtime, kind, fields)
        self.events.append(ev)
        for fn in self.listeners:
            fn(ev)
        return seq

    def count(self, name: str, n: int = 1) -> None:
        self.counters[name] = self.counters.get(name, 0) + n

    def digest(self) -> str:
        h = hashlib.sha256()
        for seq, t, kind, fields in self.events:
            h.update(repr((seq, t, kind, sorted(fields.items()))).encode())
        return h.hexdigest()

    def shape(self) -> str:
        """Hash of the event-kind sequence with values erased."""
        h = hashlib.sha256()
        for _seq, _t, kind, fields in self.events:
            h.update(kind.encode())
            k = fields.get("k")
            if k is not None:
                h.update(str(k).encode())
            h.update(b";")
        return h.hexdigest()[:16]

    def of(self, *kinds):
        ks = set(kinds)
        return [e for e in self.events if e[2] in ks]
