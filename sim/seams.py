"""Seams installed around pyairtouch for the duration of a simulated run.

None of this edits /repo.  What is patched, and why:

* asyncio.as_completed - the stdlib builds ``set(fs)`` of coroutine objects, so
  the order in which the subscriber tasks are created follows id() (allocator
  dependent).  The replacement is the same algorithm over a list whose order is
  a recorded draw of the run's scheduler PRNG.
* the name ``set`` in pyairtouch.comms.socket / at4.api / at5.api / comms.discovery -
  subscriber sets hold bound methods (pointer hashes), the discovery response set holds
  dataclasses of strings (PYTHONHASHSEED dependent order).  An insertion-ordered set with the
  same API makes iteration order a function of the history.
* registry singletons - the packet id counter is process global.
* pyairtouch.comms.discovery.socket - replaced by an inert fake module.
"""

from __future__ import annotations

import asyncio
import asyncio.tasks
import copy
import enum
import logging
import sys
from asyncio import events, exceptions, futures

from .loop import SimHarnessError
from .net import FakeSocketModule

_order_fn = None  # callable(n) -> permutation list, set per run


class OrderedSet:
    """Insertion-ordered set with the subset of the set API pyairtouch uses."""

    __slots__ = ("_d",)

    def __init__(self, it=()):
        self._d = dict.fromkeys(it)

    def add(self, x):
        self._d[x] = None

    def discard(self, x):
        self._d.pop(x, None)

    def remove(self, x):
        del self._d[x]

    def clear(self):
        self._d.clear()

    def union(self, *others):
        r = OrderedSet(self._d)
        for o in others:
            for x in o:
                r._d[x] = None
        return r

    def update(self, *others):
        for o in others:
            for x in o:
                self._d[x] = None

    def copy(self):
        return OrderedSet(self._d)

    def __or__(self, o):
        return self.union(o)

    __ror__ = __or__

    # in-place operators mutate the object, exactly as for a real set (`a |= b` with a an alias of an attribute changes
    # that attribute)
    def __ior__(self, o):
        self.update(o)
        return self

    def difference(self, *others):
        drop = set()
        for o in others:
            drop.update(o)
        return OrderedSet(x for x in self._d if x not in drop)

    def __sub__(self, o):
        return self.difference(o)

    def difference_update(self, *others):
        for o in others:
            for x in list(o):
                self._d.pop(x, None)

    def __isub__(self, o):
        self.difference_update(o)
        return self

    def intersection(self, *others):
        keep = None
        for o in others:
            keep = set(o) if keep is None else keep & set(o)
        return OrderedSet(x for x in self._d if keep is None or x in keep)

    def __and__(self, o):
        return self.intersection(o)

    def intersection_update(self, *others):
        r = self.intersection(*others)
        self._d = dict.fromkeys(r._d)

    def __iand__(self, o):
        self.intersection_update(o)
        return self

    def symmetric_difference(self, o):
        o = list(o)
        return OrderedSet([x for x in self._d if x not in o] + [x for x in o if x not in self._d])

    def __xor__(self, o):
        return self.symmetric_difference(o)

    def __ixor__(self, o):
        r = self.symmetric_difference(o)
        self._d = dict.fromkeys(r._d)
        return self

    def pop(self):
        k = next(iter(self._d))
        del self._d[k]
        return k

    def issubset(self, o):
        return all(x in o for x in self._d)

    def issuperset(self, o):
        return all(x in self._d for x in o)

    def isdisjoint(self, o):
        return not any(x in self._d for x in o)

    __le__ = issubset
    __ge__ = issuperset

    def __iter__(self):
        # like a real set: changing the size while an iterator is live raises RuntimeError on its next step
        return iter(self._d)

    def __len__(self):
        return len(self._d)

    def __contains__(self, x):
        return x in self._d

    def __bool__(self):
        return bool(self._d)

    def __eq__(self, o):
        return set(self._d) == set(o)

    def __repr__(self):
        return f"OrderedSet({list(self._d)!r})"

    @classmethod
    def __class_getitem__(cls, item):
        return cls


def sim_as_completed(fs, *, timeout=None):
    """asyncio.as_completed (CPython 3.12) with an explicit, drawn task order."""
    if futures.isfuture(fs) or asyncio.iscoroutine(fs):
        raise TypeError(f"expect an iterable of futures, not {type(fs).__name__}")
    from asyncio.queues import Queue

    done = Queue()
    loop = events.get_event_loop()
    items = []
    for f in fs:  # order-preserving de-duplication (the stdlib uses set())
        if not any(f is g for g in items):
            items.append(f)
    if _order_fn is not None and len(items) > 1:
        perm = _order_fn(len(items))
        items = [items[i] for i in perm]
    todo = [asyncio.ensure_future(f, loop=loop) for f in items]
    timeout_handle = None

    def _on_timeout():
        for f in todo:
            f.remove_done_callback(_on_completion)
            done.put_nowait(None)
        todo.clear()

    def _on_completion(f):
        if not todo:
            return
        todo.remove(f)
        done.put_nowait(f)
        if not todo and timeout_handle is not None:
            timeout_handle.cancel()

    async def _wait_for_one():
        f = await done.get()
        if f is None:
            raise exceptions.TimeoutError
        return f.result()

    for f in list(todo):
        f.add_done_callback(_on_completion)
    if todo and timeout is not None:
        timeout_handle = loop.call_later(timeout, _on_timeout)
    for _ in range(len(todo)):
        yield _wait_for_one()


class _Capture(logging.Handler):
    def __init__(self):
        super().__init__(level=logging.DEBUG)
        self.records = 0
        self.by_level: dict[str, int] = {}

    def emit(self, record):
        self.records += 1
        self.by_level[record.levelname] = self.by_level.get(record.levelname, 0) + 1


_installed = False
_saved = {}
capture = _Capture()


def _mods():
    import pyairtouch.at4.api
    import pyairtouch.at4.comms.registry
    import pyairtouch.at5.api
    import pyairtouch.at5.comms.registry
    import pyairtouch.comms.discovery
    import pyairtouch.comms.socket

    return pyairtouch


def install() -> None:
    global _installed
    if _installed:
        return
    pa = _mods()
    _saved["as_completed"] = asyncio.as_completed
    _saved["tasks.as_completed"] = asyncio.tasks.as_completed
    asyncio.as_completed = sim_as_completed
    asyncio.tasks.as_completed = sim_as_completed
    for m in (pa.comms.socket, pa.at4.api, pa.at5.api, pa.comms.discovery):
        if "set" in m.__dict__ and m.__dict__["set"] is not OrderedSet:
            raise SimHarnessError(f"{m.__name__} defines its own name 'set'")
        m.set = OrderedSet
    if not hasattr(pa.comms.discovery, "socket"):
        raise SimHarnessError("pyairtouch.comms.discovery has no attribute 'socket'")
    _saved["discovery.socket"] = pa.comms.discovery.socket
    root = logging.getLogger("pyairtouch")
    _saved["log.level"] = root.level
    _saved["log.propagate"] = root.propagate
    root.addHandler(capture)
    root.setLevel(logging.WARNING)
    root.propagate = False
    _installed = True


def uninstall() -> None:
    global _installed
    if not _installed:
        return
    pa = _mods()
    asyncio.as_completed = _saved["as_completed"]
    asyncio.tasks.as_completed = _saved["tasks.as_completed"]
    for m in (pa.comms.socket, pa.at4.api, pa.at5.api, pa.comms.discovery):
        if m.__dict__.get("set") is OrderedSet:
            del m.set
    pa.comms.discovery.socket = _saved["discovery.socket"]
    root = logging.getLogger("pyairtouch")
    root.removeHandler(capture)
    root.setLevel(_saved["log.level"])
    root.propagate = _saved["log.propagate"]
    _installed = False


_MISSING = object()


def _plain(v, depth: int = 0) -> bool:
    """Scalars and (nested) plain containers of scalars: state a codec object may accumulate (flags, caches)."""
    if isinstance(v, (bool, int, float, str, bytes, type(None))):
        return True
    if depth > 4:
        return False
    if isinstance(v, (list, tuple, set, frozenset, bytearray)):
        return all(_plain(x, depth + 1) for x in v)
    if isinstance(v, dict):
        return all(_plain(k, depth + 1) and _plain(x, depth + 1) for k, x in v.items())
    return False


_pristine_refs: list = []  # (object, {attribute: ("ref" | "dict" | "list", live object, shallow copy)})
_pristine: list = []  # (object, {attribute: scalar value}) for every codec object reachable from the two registries


def _snapshot_registries(pa) -> None:
    """The message registries are module-level singletons whose codec objects carry small flags ("logged once").  One
    simulated run must not see what an earlier run of the same worker process left there: record the scalar attributes of
    every object reachable from the registries, restore them at the start of each run."""
    import enum

    if _pristine:
        return
    seen = set()

    def walk(o, depth=0):
        if id(o) in seen or depth > 8:
            return
        seen.add(id(o))
        if isinstance(o, dict):
            for v in list(o.values()):
                walk(v, depth + 1)
            return
        if isinstance(o, (list, tuple, set, frozenset)):
            for v in list(o):
                walk(v, depth + 1)
            return
        if isinstance(o, (enum.Enum, type)) or not type(o).__module__.startswith("pyairtouch"):
            return
        d = getattr(o, "__dict__", None)
        if d is None:
            return
        _pristine.append((o, {k: copy.deepcopy(v) for k, v in d.items() if _plain(v)}, set(d)))
        # references to other objects (a memoised "last decoder", say) and containers of objects: remembered by identity
        refs = {}
        for k, v in d.items():
            if _plain(v):
                continue
            if isinstance(v, dict):
                refs[k] = ("dict", v, dict(v))
            elif isinstance(v, list):
                refs[k] = ("list", v, list(v))
            elif not isinstance(v, (set, frozenset, tuple)):
                refs[k] = ("ref", v, None)
        _pristine_refs.append((o, refs))
        for v in list(d.values()):
            walk(v, depth + 1)

    for reg in (pa.at4.comms.registry.INSTANCE, pa.at5.comms.registry.INSTANCE):
        walk(reg)


_class_state: list = []  # (class, attribute, pristine mutable container) for every class defined in a pyairtouch module
_class_state_done = False


def _snapshot_classes() -> None:
    """Mutable containers held as CLASS attributes (a list or dict written at class level is shared by every instance, and
    in a worker process by every simulated run): record them once, restore them in place at the start of each run."""
    global _class_state_done
    if _class_state_done:
        return
    _class_state_done = True
    import sys

    for name, mod in sorted(sys.modules.items()):
        if mod is None or not (name == "pyairtouch" or name.startswith("pyairtouch.")):
            continue
        for cname, cls in sorted(vars(mod).items(), key=lambda kv: kv[0]):
            if not isinstance(cls, type) or cls.__module__ != name or isinstance(cls, enum.EnumMeta):
                continue
            for attr, val in sorted(vars(cls).items(), key=lambda kv: kv[0]):
                fn = getattr(val, "__func__", val)  # staticmethod / classmethod wrappers
                if callable(fn) and hasattr(fn, "__defaults__"):
                    _note_defaults(fn)
                if attr.startswith("__"):
                    continue
                if isinstance(val, (list, dict, set, bytearray, OrderedSet)):
                    _class_state.append((cls, attr, val, copy.copy(val)))
        for fname, fn in sorted(vars(mod).items(), key=lambda kv: kv[0]):
            if callable(fn) and hasattr(fn, "__defaults__") and getattr(fn, "__module__", None) == name:
                _note_defaults(fn)


_default_state: list = []  # (live mutable default argument, pristine copy): the classic `def f(x, acc={})` shared accumulator


def _note_defaults(fn) -> None:
    vals = list(fn.__defaults__ or ()) + list((fn.__kwdefaults__ or {}).values())
    for v in vals:
        if isinstance(v, (list, dict, set, bytearray, OrderedSet)) and not any(v is x for (x, _p) in _default_state):
            _default_state.append((v, copy.copy(v)))


def _restore_classes() -> None:
    for (live, pristine) in _default_state:
        if live != pristine:
            if isinstance(live, (list, bytearray)):
                live[:] = pristine
            else:
                live.clear()
                live.update(pristine)
    for (cls, attr, live, pristine) in _class_state:
        try:
            if live != pristine or type(live) is not type(pristine):
                if isinstance(live, list):
                    live[:] = pristine
                elif isinstance(live, bytearray):
                    live[:] = pristine
                else:
                    live.clear()
                    live.update(pristine)
            if vars(cls).get(attr) is not live:
                setattr(cls, attr, live)
        except Exception:  # noqa: BLE001 - elements that cannot be compared: replace wholesale
            setattr(cls, attr, copy.copy(pristine))


def begin_run(order_fn, first_packet_id: int = 0) -> FakeSocketModule:
    """Reset process-global state at the start of a run."""
    global _order_fn
    pa = _mods()
    _order_fn = order_fn
    _snapshot_registries(pa)
    _snapshot_classes()
    _restore_classes()
    for (o, plain, names) in _pristine:
        d = o.__dict__
        for k in [k for k in d if k not in names]:
            del d[k]  # an attribute that did not exist on the pristine object
        for k, v in plain.items():
            cur = d.get(k, _MISSING)
            if cur is _MISSING or type(cur) is not type(v) or cur != v:
                object.__setattr__(o, k, copy.deepcopy(v))
    for (o, refs) in _pristine_refs:
        d = o.__dict__
        for k, (kind, live, shallow) in refs.items():
            if d.get(k, _MISSING) is not live:
                object.__setattr__(o, k, live)
            if kind == "dict" and (len(live) != len(shallow) or any(live.get(kk, _MISSING) is not vv for kk, vv in shallow.items())):
                live.clear()
                live.update(shallow)
            elif kind == "list" and (len(live) != len(shallow) or any(a is not b for a, b in zip(live, shallow))):
                live[:] = shallow
    for reg in (pa.at4.comms.registry.INSTANCE, pa.at5.comms.registry.INSTANCE):
        hf = reg.header_factory
        if not hasattr(hf, "_next_packet_id"):
            raise SimHarnessError("header_factory has no _next_packet_id (harness seam)")
        hf._next_packet_id = first_packet_id % 256
    fake = FakeSocketModule()
    pa.comms.discovery.socket = fake
    return fake


def end_run() -> None:
    global _order_fn
    _order_fn = None


def src_root() -> str:
    pa = _mods()
    return pa.__file__
