"""Shared workload + history extraction for the send-queue properties (C01, C02, C16)."""

from __future__ import annotations

from harness import adapter
from ref import apispec, encode

from . import common

POLICIES = ["idem", "nonidem", "connected"]
# (retries, lifetime) the property texts / docs/design.md assign to the named policies
SPEC_POLICY = {"idem": (2, 30.0), "nonidem": (0, 30.0), "connected": (0, 1.0)}


def policy_numbers(p):
    if isinstance(p, str):
        return SPEC_POLICY[p]
    return p["retries"], p["lifetime"]


def distinct_messages(rng, gen: int, n: int) -> list[dict]:
    """n pairwise distinct message descriptors (distinct wire readings)."""
    out, keys = [], set()
    tries = 0
    while len(out) < n and tries < n * 50:
        tries += 1
        d = _one(rng, gen)
        k = apispec.desc_key(gen, d)
        if k in keys:
            continue
        keys.add(k)
        out.append(d)
    return out


def _one(rng, gen: int) -> dict:
    r = rng.random()
    if gen == 4:
        if r < 0.45:
            d = {"kind": "ac_control", "ac": rng.randint(0, 3)}
            c = rng.choice(["power", "mode", "fan", "sp", "step"])
            if c == "power":
                d["power"] = rng.choice(["toggle", "off", "on"])
            elif c == "mode":
                d["mode"] = rng.choice(["auto", "heat", "dry", "fan", "cool"])
            elif c == "fan":
                d["fan"] = rng.choice(["auto", "quiet", "low", "medium", "high", "powerful", "turbo"])
            elif c == "sp":
                d["sp_type"], d["sp_value"] = "set", rng.randint(10, 35)
            else:
                d["sp_type"] = rng.choice(["inc", "dec"])
            return d
        if r < 0.85:
            d = {"kind": "group_control", "group": rng.randint(0, 15)}
            c = rng.choice(["power", "pct", "sp", "step", "method"])
            if c == "power":
                d["power"] = rng.choice(["next", "off", "on", "turbo"])
            elif c == "pct":
                d["setting"], d["value"] = "percent", rng.randint(0, 100)
                d["method"] = "damper"
            elif c == "sp":
                d["setting"], d["value"] = "setpoint", rng.randint(10, 35)
                d["method"] = "temperature"
            elif c == "step":
                d["setting"] = rng.choice(["inc", "dec"])
            else:
                d["method"] = rng.choice(["change", "damper", "temperature"])
            return d
        if r < 0.93:
            return {"kind": "quick_timer", "ac": rng.randint(0, 3), "type": rng.choice(["on", "off"]), "hours": rng.randint(0, 23), "minutes": rng.randint(0, 59)}
        return rng.choice([
            {"kind": "error_info_request", "ac": rng.randint(0, 3)},
            {"kind": "ability_request", "ac": rng.randint(0, 3)},
            {"kind": "names_request", "group": rng.randint(0, 15)},
        ])
    if r < 0.45:
        c = {"ac": rng.randint(0, 15)}
        k = rng.choice(["power", "mode", "fan", "sp"])
        if k == "power":
            c["power"] = rng.choice(["toggle", "off", "on", "away", "sleep"])
        elif k == "mode":
            c["mode"] = rng.choice(["auto", "heat", "dry", "fan", "cool"])
        elif k == "fan":
            c["fan"] = rng.choice(["auto", "quiet", "low", "medium", "high", "powerful", "turbo", "intelligent_auto"])
        else:
            c["setpoint"] = (rng.randint(1, 250) + 100) / 10
        return {"kind": "ac_control", "acs": [c]}
    if r < 0.85:
        c = {"zone": rng.randint(0, 15)}
        k = rng.choice(["power", "pct", "sp", "step"])
        if k == "power":
            c["power"] = rng.choice(["next", "off", "on", "turbo"])
        elif k == "pct":
            c["setting"], c["value"] = "percent", rng.randint(0, 100)
        elif k == "sp":
            c["setting"], c["value"] = "setpoint", (rng.randint(0, 250) + 100) / 10
        else:
            c["setting"] = rng.choice(["inc", "dec"])
        return {"kind": "zone_control", "zones": [c]}
    if r < 0.93:
        return {"kind": "quick_timer", "ac": rng.randint(0, 15), "type": rng.choice(["on", "off"]), "hours": rng.randint(0, 23), "minutes": rng.randint(0, 59)}
    return rng.choice([
        {"kind": "error_info_request", "ac": rng.randint(0, 15)},
        {"kind": "ability_request", "ac": rng.randint(0, 15)},
        {"kind": "names_request", "zone": rng.randint(0, 15)},
    ])


def accumulating(gen: int, d: dict) -> bool:
    """Commands whose repetition would accumulate (property C02)."""
    if d["kind"] == "ac_control":
        recs = [d] if gen == 4 else d["acs"]
        return any(c.get("power") == "toggle" or c.get("sp_type") in ("inc", "dec") for c in recs)
    if d["kind"] == "group_control":
        return d.get("power") == "next" or d.get("setting") in ("inc", "dec") or d.get("method") == "change"
    if d["kind"] == "zone_control":
        return any(c.get("power") == "next" or c.get("setting") in ("inc", "dec") for c in d["zones"])
    return False


class History:
    """Wire history of a run, attributed to submissions."""

    def __init__(self, world) -> None:
        self.world = world
        gen = world.gen
        w = common.wire(gen)
        self.frames = []  # {seq, t, link, reading, key, raw, fr}
        self.partials = []  # trailing incomplete frame per link (cut by a fault)
        self.link_verdict = {}
        for link in world.net.links:
            buf = b"".join(d for (_s, _t, d) in link.tx_writes)
            frames, verdict, consumed = w.parse_stream(buf)
            self.link_verdict[link.id] = (verdict, consumed, len(buf))
            # map byte offsets back to write events
            offs = []
            pos = 0
            for (s, t, d) in link.tx_writes:
                offs.append((pos, pos + len(d), s, t))
                pos += len(d)
            for fr in frames:
                start = fr["at"]
                end = start + len(fr["raw"])
                first = next(o for o in offs if o[0] <= start < o[1])
                last = next(o for o in offs if o[0] < end <= o[1])
                r = w.read(fr)
                self.frames.append({
                    "seq": first[2], "t": first[3], "t_end": last[3], "seq_end": last[2], "link": link.id, "reading": r,
                    "key": apispec.reading_key(gen, r), "raw": fr["raw"], "fr": fr,
                })
            if verdict != "clean" and consumed < len(buf):
                first = next(o for o in offs if o[0] <= consumed < o[1])
                self.partials.append({"seq": first[2], "t": first[3], "link": link.id, "bytes": buf[consumed:], "verdict": verdict})
        self.frames.sort(key=lambda f: f["seq"])
        # submissions
        self.subs = []
        for c in world.calls:
            if c["op"] != "user.send":
                continue
            d = c["step"]["msg"]
            retries, life = policy_numbers(c["step"].get("policy", "idem"))
            self.subs.append({
                "id": c["id"], "desc": d, "key": apispec.desc_key(gen, d), "t_accept": c["t_call"], "seq_call": c["seq_call"],
                "exc": type(c["exc"]).__name__ if c["exc"] is not None else None, "returned": c["t_ret"] is not None,
                "t_ret": c["t_ret"], "retries": retries, "lifetime": life, "policy": c["step"].get("policy", "idem"),
                "tx": [], "partial": [],
            })
        by_key = {s["key"]: s for s in self.subs}
        self.unattributed = []
        for f in self.frames:
            s = by_key.get(f["key"])
            if s is None:
                self.unattributed.append(f)
            else:
                s["tx"].append(f)
                f["sub"] = s["id"]
        self.unattributed_partials = []
        for p in self.partials:
            cands = [s for s in self.subs if encode.prefix_matches(gen, s["desc"], p["bytes"])]
            if len(cands) == 1:
                cands[0]["partial"].append(p)
            elif not cands:
                self.unattributed_partials.append(p)
            else:
                p["candidates"] = [c["id"] for c in cands]

    def connection_intervals(self):
        """[(t_established, t_down, link)] from the simulated network's point of view."""
        out = []
        for link in self.world.net.links:
            if link.t_accept is None:
                continue
            t_down = None
            for (seq, t, kind, fields) in self.world.trace.events:
                if kind in ("conn.close", "conn.force_close", "rx.fin", "rx.rst") and fields.get("link") == link.id:
                    t_down = t
                    break
            out.append((link.t_accept, t_down, link.id))
        return out
