"""C11 - Invalid requests are refused locally; valid ones are shaped as documented."""

from __future__ import annotations

from . import apicalls, common
from .common import viol

ID = "C11"
TITLE = "Invalid requests are refused locally; valid ones are shaped as documented"
LEVEL = "exploration"
RULE = (
    "seeded runs against an initialised client whose console advertises generated ability bitmaps (mode and fan subsets incl. "
    "empty / single / all-but-one), zones with and without sensor, turbo supported or not, and drifting timer states; 4..30 "
    "public calls per run with every enum argument, temperatures on a fine grid incl. ties and out-of-range values, dampers "
    "-5..105, quick timer set / clear. Per call: ValueError and zero command frames exactly for the categories the property "
    "lists; otherwise exactly one frame whose reference reading carries the rounded (AC: clamped) value; timer control leaves "
    "the other timer as last reported. non-trivial = at least one call that must be refused or rounded/clamped; distinct = "
    "(call kind, argument, expected outcome, generation) combinations"
)
COMPONENTS = common.COMPONENTS_API
ASSUMPTIONS = [
    "zone set-points that one protocol byte cannot carry are outside this oracle (the property does not say whether they are accepted)",
    "reference for 'as last reported': the latest timer status frame the console delivered before the call",
]
PROBES = ["c11.must_raise", "c11.unsupported_mode", "c11.unsupported_fan", "c11.damper_out_of_range", "c11.no_sensor", "c11.turbo_unsupported",
          "c11.clamped", "c11.rounded_tie", "c11.timer_other_enabled", "c11.accepted"]


def budget(tier: str) -> int:
    return 4000 if tier == "quick" else 300_000


def generate(rng, index: int, tier: str) -> dict:
    return apicalls.generate(rng, "c11")


def execute(sc: dict) -> dict:
    w, verdicts = apicalls.evaluate(sc)
    V = []
    probes = {}
    sets = set()
    if verdicts is None:
        return common.result(w, V, nontrivial=False)
    interesting = 0
    for v in verdicts:
        if "closed_loop_diffs" in v or not v["reachable"] or v["expect"] is None:
            continue
        exp = v["expect"]
        sets.add(repr((sc["gen"], v["call"], tuple(sorted((k, repr(x)) for k, x in v["args"].items())), exp)))
        if exp == "raise":
            interesting += 1
            probes["c11.must_raise"] = 1
            if v["call"] == "set_mode":
                probes["c11.unsupported_mode"] = 1
            elif v["call"] == "set_fan_speed":
                probes["c11.unsupported_fan"] = 1
            elif v["call"] == "set_damper_percentage":
                probes["c11.damper_out_of_range"] = 1
            elif v["call"] == "set_target_temperature":
                probes["c11.no_sensor"] = 1
            elif v["call"] == "set_power" and v["target"][0] == "zone":
                probes["c11.turbo_unsupported"] = 1
            if v["exc"] != "ValueError":
                V.append(viol("C11.must_raise", {"call": v["call"], "target": v["target"], "args": v["args"], "got": v["exc"], "frames": len(v["frames"])}, call=v["call"], gen=sc["gen"]))
                break
            if v["frames"]:
                V.append(viol("C11.transmitted_on_refusal", {"call": v["call"], "args": v["args"], "frames": [f["fr"]["raw"].hex() for f in v["frames"]][:2]}))
                break
        elif exp == "accept":
            probes["c11.accepted"] = 1
            if v["exc"] is not None:
                V.append(viol("C11.must_not_raise", {"call": v["call"], "target": v["target"], "args": v["args"], "exc": v["exc"]}, call=v["call"], gen=sc["gen"], exc=v["exc"]))
                break
            if not v["returned"]:
                continue
            if len(v["frames"]) != 1:
                V.append(viol("C11.frame_count", {"call": v["call"], "args": v["args"], "frames": len(v["frames"])}, call=v["call"]))
                break
            if v["call"] in ("set_target_temperature", "set_quick_timer", "clear_quick_timer", "set_damper_percentage") and not v["meaning_ok"][0]:
                f = v["frames"][0]
                rule = "C11.timer_other" if f["reading"]["kind"] == "timer_control" else "C11.value_shape"
                V.append(viol(rule, {"call": v["call"], "target": v["target"], "args": v["args"], "frame": f["fr"]["raw"].hex(), "reference_reading": repr(f["reading"])[:400]},
                              call=v["call"], gen=sc["gen"]))
                break
            if v["call"] == "set_target_temperature":
                interesting += 1
                t = v["args"]["temperature"]
                scaled = t * (1 if sc["gen"] == 4 else 10)
                if abs((scaled % 1) - 0.5) < 1e-6:
                    probes["c11.rounded_tie"] = 1
                if v["target"][0] == "ac":
                    probes["c11.clamped"] = 1
            if v["call"] in ("set_quick_timer", "clear_quick_timer") and v["frames"][0]["reading"]["kind"] == "timer_control":
                probes["c11.timer_other_enabled"] = 1
    res = common.result(w, V, nontrivial=interesting > 0, probes=probes, evals=max(1, len(verdicts)))
    res["sets"] = {"distinct_call_argument_outcome_combinations": sorted(sets)}
    return res


LEVEL_TEXT = (
    "Seeded search over ability configurations x public calls x arguments: the refusal categories (ValueError, nothing "
    "transmitted), exactly-one-frame, rounding / clamping and timer preservation are judged per call against ref/apispec.py "
    "with the reference decoder reading the frame. Sampled evidence over an input/configuration grid."
)
LEVEL_NOTE = "Trusts ref/apispec.py; the timer control message layout is from spec/undocumented_messages.md."
TECHNIQUE = "deterministic simulation (client <-> reference console) with seeded configuration/argument generation; per-call oracle on exception and reference-decoded frames"
