"""C01 - Accepted commands reach the wire once each, in order, unsubstituted."""

from __future__ import annotations

from harness import gen as G
from harness.world import World

from . import common, sendq
from .common import viol

ID = "C01"
TITLE = "Accepted commands reach the wire once each, in order, unsubstituted"
LEVEL = "exploration"
RULE = (
    "seeded scenarios on a real AirTouchSocket + registry: 1..300 pairwise distinct messages (all three retry policies, "
    "several tasks, yield jitter, same-instant bursts) x link script (refused/unreachable/timed-out attempts with latencies, "
    "accept latency, optional peer-FIN outage and reconnect, flow-control stall) x first packet id (wrap at 256); no write "
    "fault is injected; a run is non-trivial when at least one message was accepted while the link was down or two sends "
    "share an instant; distinct = distinct event-kind sequence (trace shape)"
)
COMPONENTS = {
    "real": ["pyairtouch.comms.socket.AirTouchSocket", "at4/at5 registries, header factory/encoder, message encoders, crc16",
             "asyncio streams, tasks, timers"],
    "stub": ["clock/_run_once (SimLoop)", "TCP (SimNet/SimTransport)", "asyncio.as_completed order", "console = passive recorder",
             "user = scenario timeline"],
}
ASSUMPTIONS = [
    "'put on the wire' = handed to transport.write of the connection's transport (client-side wire tap)",
    "a peer FIN is not a write fault; a write into a transport the client is closing is one: sends are not placed at the very instant the FIN is delivered, and a message accepted while a close is still in progress (slow close under flow control) is not judged here",
    "messages whose lifetime ends within 0.1 s of the next connection are not judged (C02/C16 cover expiry)",
]
PROBES = ["c01.write_swallowed_by_closing_transport", "c01.unencodable_in_front", "c01.accepted_while_closing", "c01.accepted_while_down", "c01.same_instant_sends", "c01.packet_id_wrapped", "c01.outage", "c01.stall", "c01.send_at_establish"]


def budget(tier: str) -> int:
    return 16000 if tier == "quick" else 1_500_000


def _fail_fates(rng, n):
    return [{"kind": rng.choice(["refuse", "refuse", "unreachable", "timeout"]), "latency": rng.choice([0.0, 0.125, 0.5, 1.0])} for _ in range(n)]


def generate(rng, index: int, tier: str) -> dict:
    gen = rng.choice([4, 5])
    knobs = {"latency": rng.choice([0.0, G.TICK, 2.0**-7, 2.0**-4]), "first_packet_id": rng.choice([0, 250, 253, 255, rng.randint(0, 255)])}
    big = rng.random() < (0.03 if tier == "quick" else 0.05)
    n_msgs = rng.randint(257, 300) if big else rng.choice([1, 2, 3, 4, 5, 6, 8, 10, 12])
    t_open = rng.choice([0.0, 0.0, 0.5])
    f1 = _fail_fates(rng, rng.choice([0, 0, 1, 1, 2, 3]))
    acc1 = rng.choice([0.0, 0.125, 1.0, 3.0])
    fates = f1 + [{"kind": "accept", "latency": acc1}]
    t = t_open
    for f in f1:
        t += f["latency"] + 2.0
    T1 = t + acc1
    ups = []
    tl = [{"at": t_open, "op": "user.open"}]
    outage = rng.random() < 0.5
    lat = knobs["latency"]
    if outage:
        t_f = T1 + G.dyadic(rng, 0.5, 5.0)
        f2 = _fail_fates(rng, rng.choice([0, 0, 1, 2]))
        acc2 = rng.choice([0.0, 0.125, 1.0])
        fates += f2 + [{"kind": "accept", "latency": acc2}]
        t = t_f + lat
        for f in f2:
            t += f["latency"] + 2.0
        T2 = t + acc2
        ups = [(T1, t_f + lat), (T2, 1e9)]
        tl.append({"at": t_f, "op": "net.fin"})
        t_end = T2 + 3.0
    else:
        ups = [(T1, 1e9)]
        t_end = T1 + 4.0
    knobs["fates"] = fates
    avoid = {u[1] for u in ups}
    all_msgs = sendq.distinct_messages(rng, gen, n_msgs + 3)
    msgs, spare = all_msgs[:n_msgs], all_msgs[n_msgs:]
    anchors = [T1] + ([ups[0][1], ups[1][0]] if outage else [])
    down_counts = {}
    sends = []
    burst_t = None
    for d in msgs:
        for _ in range(20):
            if burst_t is not None and rng.random() < 0.4:
                at = burst_t
            else:
                at = G.pick_time(rng, t_open, t_end, anchors=anchors) if not big else G.dyadic(rng, T1 + 0.25, t_end if not outage else ups[0][1] - 0.25)
            if at in avoid or at < t_open + G.EPS * 0:
                continue
            up = next((u for u in ups if u[0] <= at < u[1]), None)
            if up is not None and at != up[0]:
                pol = rng.choice(sendq.POLICIES)
                break
            nxt = min((u[0] for u in ups if u[0] >= at), default=None)
            if nxt is None:
                continue
            wait = nxt - at
            bucket = nxt
            if down_counts.get(bucket, 0) >= 10:
                continue
            if wait < 0.75:
                pol = rng.choice(sendq.POLICIES)
            elif wait < 29.5:
                pol = rng.choice(["idem", "nonidem"])
            else:
                continue
            down_counts[bucket] = down_counts.get(bucket, 0) + 1
            break
        else:
            continue
        burst_t = at
        sends.append({"at": at, "op": "user.send", "msg": d, "policy": pol, "yields": rng.choice([0, 0, 0, 1, 2, 5])})
    tl += sends
    if sends and rng.random() < 0.1:
        # a message the client accepts but cannot encode (documented: logged and skipped) right in front of an ordinary one:
        # the messages behind it must not be held up or lost because of it, connected or not
        victim = rng.choice(sends)
        which = "struct"  # struct.error at encode time (a number that does not fit its protocol byte)
        bad = {"kind": "group_control", "group": 300, "power": "on"} if gen == 4 else {"kind": "zone_control", "zones": [{"zone": 300, "power": "on"}]}
        # same instant, ordered in front of the victim (the sort below is stable: timeline order is execution order within an instant)
        tl.insert(tl.index(victim), {"at": victim["at"], "op": "user.send", "msg": bad, "policy": "idem", "unencodable": which})
    if rng.random() < 0.25 and not big:
        # the connection that flushes the buffered messages is under flow control from its first byte,
        # and further sends arrive while that flush is suspended
        dur = rng.choice([0.125, 0.5])
        tl.append({"at": t_open, "op": "net.stall_next", "duration": dur})
        for d in spare[: rng.choice([1, 2, 3])]:
            tl.append({"at": T1 + G.dyadic(rng, 0.0, dur), "op": "user.send", "msg": d, "policy": rng.choice(["idem", "nonidem"]), "yields": rng.choice([0, 1, 3])})
    if rng.random() < 0.2 and not big and not outage:
        # a reset that takes time: a send is held by flow control, the peer closes, the client's close of the old transport
        # has to wait for the unflushed bytes - and more messages are accepted while it waits.  No write fault anywhere.
        t_x = T1 + G.dyadic(rng, 1.0, 2.5)
        extra = sendq.distinct_messages(rng, gen, n_msgs + 8)[-4:]
        if all(x.get("msg") not in extra for x in tl):
            tl.append({"at": t_x, "op": "net.stall", "on": True})
            tl.append({"at": t_x + G.EPS, "op": "user.send", "msg": extra[0], "policy": "idem"})
            tl.append({"at": t_x + 0.0625, "op": rng.choice(["net.fin", "net.fin", "console.raw"]), "hex": "00" * 24})
            for i, d in enumerate(extra[1: rng.choice([2, 3, 4])]):
                tl.append({"at": t_x + 0.125 + i * 0.03125, "op": "user.send", "msg": d, "policy": rng.choice(["idem", "nonidem"]), "yields": rng.choice([0, 1])})
            tl.append({"at": t_x + 0.25, "op": "net.stall", "on": False})
            fates.append({"kind": "accept", "latency": rng.choice([0.0, 0.125])})
            t_end = max(t_end, t_x + 3.0)
    elif rng.random() < 0.2 and not big:
        ts = G.pick_time(rng, T1, t_end - 1.0, anchors=anchors)
        tl.append({"at": ts, "op": "net.stall", "on": True})
        # mostly short; sometimes long enough for any "the write is taking too long" logic to fire (the messages still have
        # most of their 30 s ahead of them, and nothing fails)
        dur = rng.choice([G.TICK, 0.125, 0.5, 0.5, 7.0, 12.0])
        tl.append({"at": ts + dur, "op": "net.stall", "on": False})
        if dur > 1.0:
            for d in sendq.distinct_messages(rng, gen, n_msgs + 12)[-3:]:
                if all(x.get("msg") != d for x in tl):
                    tl.append({"at": ts + G.dyadic(rng, 0.0, 1.0), "op": "user.send", "msg": d, "policy": rng.choice(["idem", "idem", "nonidem"]), "yields": rng.choice([0, 1])})
            t_end = max(t_end, ts + dur + 3.0)
    tl.sort(key=lambda s: s["at"])
    return {"gen": gen, "mode": "socket", "knobs": knobs, "timeline": tl, "end": t_end + 1.0}


def judge(w: World, sc: dict, *, socket_level: bool = True):
    V = []
    probes = {}
    h = sendq.History(w)
    ivs = h.connection_intervals()
    stall_total = 0.0
    t_on = None
    for st in sc["timeline"]:
        if st["op"] == "net.stall_next":
            stall_total += st["duration"]
        if st["op"] == "net.stall":
            if st.get("on", True):
                t_on = st["at"]
            elif t_on is not None:
                stall_total += st["at"] - t_on
                t_on = None
    if t_on is not None:
        stall_total += 1e9
    if stall_total:
        probes["c01.stall"] = 1
    for lid, (verdict, consumed, total) in h.link_verdict.items():
        if verdict != "clean":
            V.append(viol("C01.interleave", {"link": lid, "verdict": verdict, "at": consumed, "of": total}))
    if socket_level:
        for f in h.unattributed:
            V.append(viol("C01.not_submitted", {"frame": f["raw"].hex(), "reading": repr(f["reading"])[:200], "t": f["t"]}))
            break
    for f in h.frames:
        fr = f["fr"]
        to_want = 0x90 if fr["type"] == 0x1F else 0x80
        if fr["to"] != to_want or fr["frm"] != 0xB0:
            V.append(viol("C01.addresses", {"frame": f["raw"].hex()}))
            break
    pids = [f["fr"]["pid"] for f in h.frames]
    if any(b < a for a, b in zip(pids, pids[1:])):
        probes["c01.packet_id_wrapped"] = 1
    times = [s["t_accept"] for s in h.subs if s["t_accept"] is not None]
    if len(times) != len(set(times)):
        probes["c01.same_instant_sends"] = 1
    est_times = {iv[0] for iv in ivs}
    # windows in which the client is closing a transport but still calls itself connected (a close held up by unflushed
    # bytes under flow control can last long): a message accepted there is written into the closing transport, which is a
    # write fault from the client's point of view - the retry policy decides (C02), not this property
    closing = {}
    for (seq, t, kind, f) in w.trace.events:
        if kind == "conn.close" and f.get("link") not in closing:
            closing[f["link"]] = [t, None]
        elif kind == "conn.lost" and f.get("link") in closing and closing[f["link"]][1] is None:
            closing[f["link"]][1] = t
    closing = [(a, b if b is not None else 1e18) for (a, b) in closing.values()]
    order = []
    call_by_id = {c["id"]: c for c in w.calls}
    for s in h.subs:
        if call_by_id.get(s["id"], {}).get("step", {}).get("unencodable"):
            probes["c01.unencodable_in_front"] = 1
            continue  # accepted, cannot be encoded: nothing is owed to it (the ones behind it are judged as usual)
        if s["exc"] is not None:
            if s["tx"]:
                V.append(viol("C01.sent_after_raise", {"sub": s["id"], "exc": s["exc"]}))
            continue
        if s["t_accept"] is None or not s["returned"] and not s["tx"] and w.verdict != "ok":
            continue
        ta = s["t_accept"]
        if any(a <= ta <= b for (a, b) in closing):
            probes["c01.accepted_while_closing"] = 1
            # ... and only if that is what happened: bytes were handed to a transport that swallowed them during this very
            # call (a message that was merely set aside and then forgotten is still this property's business)
            c0 = call_by_id.get(s["id"])
            lo = s["seq_call"] if s["seq_call"] is not None else -1
            hi = c0["seq_ret"] if c0 is not None and c0["seq_ret"] is not None else 10**12
            if any(e[2] == "tx.dropped" and lo < e[0] < hi for e in w.trace.events):
                # (a write fault also takes the message out of the order comparison: the property promises acceptance order
                # where "no write fault occurs", and a message that is owed a retry goes to the head of the queue)
                probes["c01.write_swallowed_by_closing_transport"] = 1
                continue
        if ta in est_times:
            probes["c01.send_at_establish"] = 1
        connected = any(a <= ta and (b is None or ta < b) for (a, b, _l) in ivs)
        ambiguous = any(ta == a or ta == b for (a, b, _l) in ivs)
        if connected and not ambiguous:
            tstar = ta
        else:
            nxt = [a for (a, b, _l) in ivs if a >= ta]
            tstar = min(nxt) if nxt else None
            if not connected:
                probes["c01.accepted_while_down"] = 1
        n = len(s["tx"])
        if n == 0 and tstar is not None and tstar > sc.get("end", 1e18) - 0.25:
            continue  # the connection it waits for comes up as the run ends: nothing observed, nothing judged
        if n > 1:
            V.append(viol("C01.duplicate", {"sub": s["id"], "msg": s["desc"], "times": [f["t"] for f in s["tx"]]}, n=min(n, 3)))
            continue
        deadline = ta + s["lifetime"]
        # flow control (a stalled transport) may legitimately hold a message back for the stall's length
        if tstar is None or tstar + min(stall_total, 1e6) >= deadline - 0.1:
            if n == 1:
                order.append((s["tx"][0]["seq"], s["seq_call"], s["id"]))
            continue  # expiry territory: judged by C02/C16
        if n == 0:
            V.append(viol("C01.lost", {"sub": s["id"], "msg": s["desc"], "policy": s["policy"], "t_accept": ta, "connection_at": tstar,
                                       "pending_before": sum(1 for o in h.subs if o["seq_call"] < s["seq_call"] and o["exc"] is None and (not o["tx"] or o["tx"][0]["t"] > ta))},
                          connected=connected))
            continue
        f = s["tx"][0]
        order.append((f["seq"], s["seq_call"], s["id"]))
        lo = ta if ambiguous else tstar
        if f["t"] < ta - 1e-9:
            V.append(viol("C01.sent_before_accept", {"sub": s["id"]}))
        elif f["t"] > max(lo, tstar) + 0.05 + stall_total:
            V.append(viol("C01.late", {"sub": s["id"], "t": f["t"], "expected_by": max(lo, tstar) + 0.05, "policy": s["policy"]}))
    order.sort()
    calls = [o[1] for o in order]
    if any(b < a for a, b in zip(calls, calls[1:])):
        V.append(viol("C01.order", {"wire_order_of_submissions": [o[2] for o in order][:40]}))
    if any(st["op"] == "net.fin" for st in sc["timeline"]):
        probes["c01.outage"] = 1
    return V, probes, h


def execute(sc: dict) -> dict:
    w = World(sc).run()
    V, probes, h = judge(w, sc)
    if w.verdict == "stepcap":
        V.append(viol("C01.stepcap", {"steps": w.loop.steps}))
    nontrivial = bool(probes.get("c01.accepted_while_down") or probes.get("c01.same_instant_sends"))
    cross = {}
    if w.final.get("exceptions"):
        cross["loop_exception_handler_called"] = len(w.final["exceptions"])
    return common.result(w, V, nontrivial=nontrivial, probes=probes, cross=cross, evals=max(1, len(h.subs)))


LEVEL_TEXT = (
    "Seeded search over send histories and connection timings on the real AirTouchSocket: every frame handed to the "
    "transport is parsed by an independent reference framing and attributed to exactly one submission; exactly-once, "
    "acceptance order, promptness, no interleaving, nothing unsubmitted are checked over the recorded history. Sampled "
    "evidence, not proof."
)
LEVEL_NOTE = "Trusts ref/wire*.py (framing + control record layouts from the vendor documents) and sim/net.py; fault-free configuration only (write faults are C02's)."
TECHNIQUE = "deterministic simulation of the socket + retry queue on a virtual-time loop, seeded search over send/connect interleavings, history check against a reference framing"
