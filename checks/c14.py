"""C14 - State is refreshed after every reconnection and after AT4 group silence."""

from __future__ import annotations

import copy

from harness import gen as G
from harness.world import World
from ref import model as refmodel

from . import common, history
from .common import viol

ID = "C14"
TITLE = "State is refreshed after every reconnection and after AT4 group silence"
LEVEL = "exploration"
RULE = (
    "seeded scenarios on an initialised client: (reconnect class) connection loss at any instant after initialisation by peer "
    "FIN / RST / black hole until the heartbeat notices / console reboot / write error, console state changes made while "
    "disconnected, outage lengths from 0 to beyond a heartbeat period (refused and slow reconnects), then the first frames on "
    "the new connection, the getters after the answers and the subscriber calls are checked; (poll class, AT4) the console "
    "publishes group status at generated gaps and answers / ignores group status requests for 1500 simulated seconds; request "
    "instants are compared with a reference deadline process. non-trivial = every run (each contains an outage or a silence); "
    "distinct = trace shape"
)
COMPONENTS = common.COMPONENTS_API
ASSUMPTIONS = [
    "'immediately' = the two status requests are among the frames the console receives within 50 ms (+ link latency) of the new connection",
    "poll deadlines within 0.1 s of a group status arrival or of a connection change are not judged",
]
PROBES = ["c14.initialised_after_init_gave_up", "c14.handler_write_error", "c14.foreign_records_in_refresh", "c14.poll_in_second_session", "c14.poll_deadline_with_full_buffer", "c14.reconnection_dead_on_arrival", "c14.poll_deadline_in_outage", "c14.silence_after_outage", "c14.poll_write_error", "c14.fin", "c14.rst", "c14.blackhole", "c14.reboot", "c14.write_error", "c14.state_changed_while_down", "c14.unchanged_refresh",
          "c14.outage_beyond_heartbeat", "c14.second_outage", "c14.poll_after_outage", "c14.poll_fired", "c14.poll_repeated", "c14.poll_pushed_back"]


def budget(tier: str) -> int:
    return 4000 if tier == "quick" else 300_000


def generate(rng, index: int, tier: str) -> dict:
    gen = rng.choice([4, 5])
    if gen == 4 and rng.random() < 0.4:
        return gen_poll(rng)
    inst = G.installation(rng, gen, allow_zero_zones=False, max_zones=6, max_acs=2)
    knobs = {"latency": rng.choice([0.0, G.TICK, 2.0**-7]), "first_packet_id": rng.choice([0, 250]), "seg": {"mode": "whole"}}
    tl = [{"at": 0.0, "op": "user.init"}]
    for a in inst["acs"]:
        tl.append({"at": 5.5, "op": "user.subscribe", "name": f"ac{a['ac']}", "target": ["ac", a["ac"]], "method": "subscribe"})
    tl.append({"at": 5.5, "op": "user.subscribe", "name": "at", "target": ["at"], "method": "subscribe"})
    kind = rng.choice(["fin", "rst", "blackhole", "reboot", "write_error", "handler_write_error"] + (["poll_write_error"] * 2 if gen == 4 else []))
    t_o = G.pick_time(rng, 6.0, 700.0, anchors=[300.0, 300.09375, 330.0, 600.0])
    if kind == "poll_write_error":
        # the first write to meet the dead link is the client's own 300 s group-status poll (its deadline is moved off the
        # heartbeat grid by an unsolicited group status frame)
        t_g = G.dyadic(rng, 20.0, 250.0)
        t_o = t_g + 300.0
        tl.append({"at": t_g, "op": "console.publish", "what": "zone", "ids": None})
    changed = rng.random() < 0.6
    # reconnect fate
    r = rng.random()
    if r < 0.4:
        fates = [{"kind": "accept", "latency": rng.choice([0.0, 0.125, 1.0])}]
    elif r < 0.8:
        fates = [{"kind": rng.choice(["refuse", "unreachable"]), "latency": 0.0} for _ in range(rng.choice([1, 3, 10]))] + [{"kind": "accept", "latency": 0.0}]
    else:
        fates = [{"kind": "timeout", "latency": 120.0}] * rng.choice([1, 3]) + [{"kind": "accept", "latency": 0.5}]
    dead_on_arrival = kind in ("fin", "rst", "reboot", "write_error", "handler_write_error") and rng.random() < 0.25
    if dead_on_arrival:
        # a second fault during the recovery: the first connection that comes up is reset by the console at once (the
        # refresh meets a dead transport); the one after it is healthy
        fates = fates + rng.choice([[{"kind": "accept", "latency": rng.choice([0.0, 0.125])}],
                                    [{"kind": "refuse", "latency": 0.0}, {"kind": "accept", "latency": 0.0}]])
        tl.append({"at": t_o - G.EPS, "op": "net.rst_next_accept", "delay": rng.choice([0.0, G.EPS, knobs["latency"], knobs["latency"] + G.EPS])})
    tl.append({"at": t_o - G.EPS, "op": "net.fates", "fates": fates})
    if kind == "fin":
        tl.append({"at": t_o, "op": "net.fin"})
    elif kind == "rst":
        tl.append({"at": t_o, "op": "net.rst"})
    elif kind == "blackhole":
        tl.append({"at": t_o, "op": "net.blackhole", "on": True})
    elif kind == "reboot":
        tl.append({"at": t_o, "op": "console.reboot"})
    elif kind == "poll_write_error":
        tl.append({"at": t_o - G.EPS, "op": "net.fail_write", "nth": 1, "err": rng.choice(["ECONNRESET", "EPIPE"])})
    elif kind == "handler_write_error":
        t_o = G.dyadic(rng, 20.0, 280.0)  # away from the client's own periodic writes: the handler's write must be the one that fails
        for x in tl:
            if x["op"] in ("net.fates", "net.rst_next_accept") and abs(x["at"] - t_o) > 1.0 and x["at"] > 6.0:
                x["at"] = t_o - G.EPS
        # the loss is discovered by a write the client makes while it is processing a status frame: the console pushes an AC
        # status with a new error code, the client asks for the description from inside its message handler - that write fails
        tl.append({"at": t_o - G.EPS, "op": "net.fail_write", "nth": 1, "err": rng.choice(["ECONNRESET", "EPIPE"])})
        cur_err = (inst["acs"][0].get("state") or {}).get("error", 0)
        tl.append({"at": t_o, "op": "console.set", "entity": ["ac", inst["acs"][0]["ac"]], "fields": {"error": rng.choice([e for e in (3, 0x22, 0x1234, 77) if e != cur_err])}, "only": True})
    else:
        tl.append({"at": t_o, "op": "net.fail_write", "nth": rng.choice([1, 2]), "err": "ECONNRESET"})
        tl.append({"at": t_o + G.EPS, "op": "user.api", "target": ["at"], "call": "check_for_updates", "args": {}})
    foreign = False
    if changed and rng.random() < 0.3:
        # while the client is away the console also starts reporting a group / zone (or AC) the client has never heard of - listed
        # in front of the known ones in every full status answer from now on: those records are skipped, the rest still counts
        known_z = {z["zone"] for z in inst["zones"]}
        known_a = {a["ac"] for a in inst["acs"]}
        fz = [i for i in range(16) if i not in known_z]
        fa = [i for i in range(4 if gen == 4 else 8) if i not in known_a]
        f = {}
        if fz:
            f["zone"] = {str(rng.choice(fz)): G.zone_state(rng, gen)}
        if fa and rng.random() < 0.4:
            f["ac"] = {str(rng.choice(fa)): G.ac_state(rng, gen)}
        if f:
            tl.append({"at": t_o + G.EPS, "op": "console.report_foreign", "foreign": f})
            foreign = True
    if changed:
        steps = history.console_steps(rng, gen, inst, rng.choice([1, 2, 5]), t_o, 0.0, kinds=["ac", "zone", "ac", "zone", "timer"])
        for s in steps:
            if s["op"] == "console.set":
                s["publish"] = False
            elif s["op"] == "console.publish":
                s["op"] = "noop"
        tl += steps
    detect = 331.0 + 300.0 if kind == "blackhole" else 1.0
    down = sum(f["latency"] + (2.0 if f["kind"] != "accept" else 0.0) for f in fates)
    t_end = t_o + detect + down + 5.0
    if rng.random() < 0.35 and kind != "blackhole":
        # a second (and third) outage later on: the refresh must happen after EVERY reconnection
        for _ in range(rng.choice([1, 2])):
            t2 = t_end + G.dyadic(rng, 1.0, 50.0)
            tl.append({"at": t2 - G.EPS, "op": "net.fates", "fates": [{"kind": "accept", "latency": rng.choice([0.0, 0.5])}]})
            tl.append({"at": t2, "op": rng.choice(["net.fin", "net.rst"])})
            t_end = t2 + 6.0
        info_second = True
    else:
        info_second = False
    tl.append({"at": t_end - 1.0, "op": "user.snapshot", "label": "final"})
    tl.sort(key=lambda s: s["at"])
    return {"gen": gen, "mode": "api", "installation": inst, "knobs": knobs, "timeline": tl, "end": t_end, "class": "reconnect",
            "info": {"kind": kind, "t_o": t_o, "changed": changed, "down": down, "second": info_second, "dead_on_arrival": dead_on_arrival, "foreign": foreign}}


def gen_poll(rng) -> dict:
    inst = G.installation(rng, 4, allow_zero_zones=False, max_zones=4, max_acs=1)
    knobs = {"latency": rng.choice([0.0, 2.0**-7]), "seg": {"mode": "whole"}}
    tl = [{"at": 0.0, "op": "user.init"}]
    reinit = rng.random() < 0.15
    if reinit:
        # the session that is observed is the second one of the same client object (init, shutdown, init): the silence poll
        # belongs to every session
        tl += [{"at": 2.0, "op": "user.shutdown"}, {"at": 3.0, "op": "user.init", "reinit": True}]
    mode = rng.choice(["silent", "silent", "answers", "chatty", "mixed"])
    late = (not reinit) and rng.random() < 0.15
    if late:
        # the handshake is completed only after init() has given up (5 s): refused first attempts or a slow connection, and
        # a console that takes its time over each answer; the client is initialised all the same and the silence poll is owed
        d = rng.choice([0.25, 0.375, 0.5])
        if rng.random() < 0.5:
            knobs["fates"] = [{"kind": rng.choice(["refuse", "unreachable"]), "latency": 0.0}] * 2 + [{"kind": "accept", "latency": 0.0}]
        else:
            knobs["fates"] = [{"kind": "accept", "latency": rng.choice([4.0, 4.5, 4.9375])}]
        tl.append({"at": 0.0, "op": "console.delay", "delay": d})
        tl.append({"at": 11.0, "op": "console.delay", "delay": 0.0})
    if mode in ("silent", "mixed"):
        tl.append({"at": 12.0 if late else 6.0, "op": "console.mute", "kinds": ["group_status_request"]})
    if mode == "mixed":
        tl.append({"at": G.dyadic(rng, 400.0, 1000.0), "op": "console.mute", "kinds": []})
    zones = [z["zone"] for z in inst["zones"]]
    t = 10.0
    while t < 1450.0 and mode in ("chatty", "mixed", "answers"):
        gap = rng.choice([30.0, 120.0, 299.0, 299.5, 300.5, 301.0, 450.0, 700.0]) if mode != "answers" else rng.choice([450.0, 700.0])
        t += gap
        if t < 1450.0:
            tl.append({"at": t, "op": "console.publish", "what": "zone", "ids": [rng.choice(zones)] if rng.random() < 0.5 else None})
    info = {"mode": mode, "reinit": reinit, "late_init": late}
    if mode == "silent" and rng.random() < 0.35:
        # an outage the client knows about (FIN, refused reconnects) that contains a poll deadline, and a console that does not
        # answer the refresh's group status request afterwards either: the silence goes on, so must the polling
        k = rng.choice([1, 2])
        t_o = 300.0 * k - rng.choice([2.0, 10.0, 40.0])
        n_ref = rng.choice([5, 15, 40])
        tl.append({"at": t_o - G.EPS, "op": "net.fates", "fates": [{"kind": "refuse", "latency": 0.0}] * n_ref + [{"kind": "accept", "latency": 0.0}]})
        tl.append({"at": t_o, "op": "net.fin"})
        info["outage_at"] = t_o
        info["deadline_in_outage"] = True
        if rng.random() < 0.5:
            # the user keeps issuing commands during the outage ("all zones off"): at the poll deadline the client's buffer of
            # pending messages is full (ten, 30 s each) - whatever the poll does with that, the polling must go on afterwards
            t_c = 300.0 * k - rng.choice([0.5, 1.0, 1.5])
            for i in range(rng.choice([10, 10, 11, 12])):
                tl.append({"at": t_c + i * 2.0**-6, "op": "user.api", "target": ["zone", rng.choice(zones)], "call": "set_power", "args": {"zone_power": rng.choice(["ON", "OFF"])}})
            info["commands_in_outage"] = True
    elif rng.random() < 0.3:
        t_o = G.dyadic(rng, 20.0, 700.0)
        tl.append({"at": t_o - G.EPS, "op": "net.fates", "fates": [{"kind": "accept", "latency": rng.choice([0.0, 1.0])}]})
        tl.append({"at": t_o, "op": rng.choice(["net.fin", "net.rst"])})
        info["outage_at"] = t_o
    tl.sort(key=lambda s: s["at"])
    return {"gen": 4, "mode": "api", "installation": inst, "knobs": knobs, "timeline": tl, "end": 1500.0, "class": "poll", "info": info}


def execute(sc: dict) -> dict:
    if sc.get("class") == "poll":
        return execute_poll(sc)
    gen = sc["gen"]
    w = World(sc)
    final = {}

    def at_end(world):
        final["console_ac"] = copy.deepcopy(world.console.ac)
        final["console_zone"] = copy.deepcopy(world.console.zone)

    w.hooks["end"] = [at_end]
    w.run()
    V = []
    probes = {}
    info = sc.get("info", {})
    inst = sc["installation"]
    init = next((c for c in w.calls if c["op"] == "user.init"), None)
    if init is None or init["result"] is not True:
        return common.result(w, V, nontrivial=False)
    probes["c14." + info.get("kind", "fin")] = 1
    lat = sc["knobs"].get("latency", 0.0)
    links = [l for l in w.net.links if l.t_accept is not None]
    if len(links) < 2:
        fired = [e for e in w.trace.events if e[2] == "fault.fired"]
        if fired or info.get("kind") in ("blackhole",):
            V.append(viol("C14.no_reconnect", {"kind": info.get("kind"), "links": len(links), "t_o": info.get("t_o")}, kind=info.get("kind")))
        return common.result(w, V, nontrivial=True, probes=probes)
    zreq = "group_status_request" if gen == 4 else "zone_status_request"
    if info.get("dead_on_arrival"):
        probes["c14.reconnection_dead_on_arrival"] = 1
    prev_cut = None
    for l in links[1:]:
        if l.t_accept + lat + 0.05 >= sc["end"]:
            continue  # established in the run's last instants: the run ends before its first frames could reach the console
        rx = [e for e in w.console.rx if e["link"] == l.id and e["t"] <= l.t_accept + lat + 0.05]
        kinds = [e["reading"]["kind"] for e in rx]
        if l.server_closed or (l.client_closed and not rx and l is not links[-1]):
            prev_cut = l
            continue  # a connection that was itself cut at once carries no obligation
        # requests of a refresh that met a connection cut at once may still be queued (1 s lifetime) and come out in front
        carry = 1 if prev_cut is not None and l.t_accept - prev_cut.t_accept <= 1.0 + 1e-9 else 0
        prev_cut = None
        if "ac_status_request" not in kinds or zreq not in kinds:
            V.append(viol("C14.no_refresh", {"link": l.id, "established": l.t_accept, "first_frames": kinds}, missing="ac" if "ac_status_request" not in kinds else "zone"))
            break
        # AT4: the 300 s group poll may fire in the very instant of the reconnect (one extra request)
        if kinds.count("ac_status_request") > 1 + carry or kinds.count(zreq) > (2 if gen == 4 else 1) + carry:
            V.append(viol("C14.refresh_repeated", {"link": l.id, "first_frames": kinds}))
            break
    if sc["info"].get("foreign"):
        probes["c14.foreign_records_in_refresh"] = 1
    if info.get("second") and len(links) >= 3:
        probes["c14.second_outage"] = 1
    if links[1].t_accept - info.get("t_o", 0) > 330.0:
        probes["c14.outage_beyond_heartbeat"] = 1
    # getters converge to the console's state
    snap = next((s for (_t, lbl, s) in w.snapshots if lbl == "final"), None)
    if snap is not None and not V:
        wire = common.wire(gen)
        m = refmodel.Model(gen, inst, common.META)
        common.feed_model(w, m, upto_seq=snap["_seq"])
        # what the console holds now, as if it reported everything
        for ac, st in final.get("console_ac", {}).items():
            m.feed({"kind": "ac_status", "acs": [dict(st)]})
        zk = "groups" if gen == 4 else "zones"
        for z, st in final.get("console_zone", {}).items():
            zz = dict(st)
            if gen == 5 and zz.get("setpoint") is None:
                zz["setpoint"] = "na"
            if zz.get("temp") is None:
                zz["temp"] = "na"
            m.feed({"kind": "group_status" if gen == 4 else "zone_status", zk: [zz]})
        exp = m.expected()
        for e in exp["acs"].values():
            e.pop("error_info", None)
        diffs = refmodel.compare(exp, snap)
        if diffs:
            V.append(viol("C14.stale_after_reconnect", {"diffs": diffs[:4], "kind": info.get("kind")}, attr=diffs[0]["attr"]))
    # unchanged refresh -> no notifications
    if info.get("changed") or info.get("kind") == "handler_write_error":  # (there the state changes in the instant of the loss)
        probes["c14.state_changed_while_down"] = 1
    elif not V:
        probes["c14.unchanged_refresh"] = 1
        t2 = links[1].t_accept
        calls = [e for e in w.trace.events if e[2] == "sub.call" and e[1] >= t2]
        if info.get("kind") == "handler_write_error":
            # the status frame whose handling met the dead link did change the AC (new error code): its notification is owed
            # and may come late - the handler first resets the connection, and only then tells the subscribers; it still
            # precedes the first answer to the refresh
            seq_up = next((e[0] for e in w.trace.events if e[2] == "net.connect_result" and e[3].get("ok") and e[3].get("link") == links[1].id), 0)
            seq_ans = next((e[0] for e in w.trace.events if e[2] == "console.tx" and e[0] > seq_up), 10**12)
            calls = [e for e in calls if not (e[0] < seq_ans and e[3]["k"] == "ac%d" % inst["acs"][0]["ac"])]
        if calls:
            V.append(viol("C14.notified_on_unchanged_refresh", {"calls": [(e[1], e[3]["k"]) for e in calls][:5]}))
    if w.verdict == "stepcap":
        V.append(viol("C14.stepcap", {}))
    return common.result(w, V, nontrivial=True, probes=probes)


def execute_poll(sc: dict) -> dict:
    w = World(sc).run()
    V = []
    probes = {}
    inits = [c for c in w.calls if c["op"] == "user.init"]
    init = inits[-1] if inits else None
    lat = sc["knobs"].get("latency", 0.0)
    late = bool(sc["info"].get("late_init"))
    if late and init is not None and init["result"] is False:
        # init() gave up, the handshake went on and was completed: the client counts as initialised from the arrival of the
        # handshake's last answer (the first group status), and the silence poll runs from there
        firsts = sorted(x["t"] + lat for x in w.console.tx if x["kind"] == "group_status")
        if not firsts or firsts[0] < init["t_ret"]:
            return common.result(w, V, nontrivial=False)
        probes["c14.initialised_after_init_gave_up"] = 1
        t_i = firsts[0]
    elif init is None or init["result"] is not True or any(c["result"] is not True for c in inits):
        return common.result(w, V, nontrivial=False)
    else:
        t_i = init["t_ret"]
    if len(inits) > 1:
        probes["c14.poll_in_second_session"] = 1
    arrivals = sorted(x["t"] + lat for x in w.console.tx if x["kind"] == "group_status" and x["t"] + lat > t_i)
    ups = [l.t_accept for l in w.net.links if l.t_accept is not None][1:]
    if len(inits) > 1:
        ups = [u for u in ups if u > t_i]  # connections of the observed (last) session only
    reqs = sorted(e["t"] - lat for e in w.console.rx if e["reading"]["kind"] == "group_status_request" and e["t"] - lat > t_i + 1e-9
                  and not any(abs((e["t"] - lat) - u) < 0.1 for u in ups))
    if ups:
        probes["c14.poll_after_outage"] = 1
    end = sc["end"] - 1.0
    D = t_i + 300.0
    expected = []
    ai = 0
    skip_near = []
    while D < end:
        moved = False
        while ai < len(arrivals) and arrivals[ai] < D:
            if D - arrivals[ai] < 0.1:
                skip_near.append(D)
            D = arrivals[ai] + 300.0
            ai += 1
            moved = True
            probes["c14.poll_pushed_back"] = 1
        if moved:
            continue
        if ai < len(arrivals) and arrivals[ai] - D < 0.1:
            skip_near.append(D)
        expected.append(D)
        D += 300.0
    downs = [e[1] for e in w.trace.events if e[2] in ("rx.fin", "rx.rst", "conn.lost") and (len(inits) == 1 or e[1] > t_i)]
    outages = []
    for u in ups:
        before = [x for x in downs if x <= u]
        if before:
            outages.append((max(before), u))
    for d in expected:
        if any(abs(d - x) < 1.5 for x in ups + downs):
            skip_near.append(d)
        # a deadline that passes while the client knows the link is down cannot be acted on; where the client's next
        # deadline lies is then its own business (the rule at the end still demands a request while the silence lasts)
        if any(a - 1.5 <= d <= b + 1.5 for (a, b) in outages):
            skip_near.append(d)
    expected = [d for d in expected if d < end - 0.1]
    reqs = [r for r in reqs if r < end - 0.1]
    # judge the prefix of the run up to the first ambiguous deadline (what follows depends on which side it fell)
    horizon = min(skip_near) - 0.5 if skip_near else end
    if expected:
        probes["c14.poll_fired"] = 1
    if len(expected) > 1:
        probes["c14.poll_repeated"] = 1
    for d in expected:
        if d >= horizon:
            break
        if not any(abs(r - d) <= 0.05 for r in reqs):
            V.append(viol("C14.poll_missing", {"expected_at": d, "requests": reqs[:8], "arrivals": arrivals[:8], "mode": sc["info"]["mode"],
                                               "outage_at": sc["info"].get("outage_at")}, first=(d == expected[0]), after_outage=bool(ups) and d > ups[0]))
            break
    if not V:
        for r in reqs:
            if r >= horizon:
                break
            if not any(abs(r - d) <= 0.05 for d in expected):
                V.append(viol("C14.poll_spurious", {"request_at": r, "expected": expected[:8], "arrivals": arrivals[:8]}))
                break
    # "for as long as the silence lasts": after the last reconnection, with no group status arriving any more, a request must
    # follow within two poll periods whatever the phase of the client's deadline is
    if ups and not V:
        t_r = max(ups)
        later_arrivals = [a for a in arrivals if a > t_r + 1.0]
        later_downs = [d for d in downs if d > t_r + 0.5]
        if sc["info"].get("deadline_in_outage"):
            probes["c14.poll_deadline_in_outage"] = 1
        if sc["info"].get("commands_in_outage"):
            probes["c14.poll_deadline_with_full_buffer"] = 1
        if not later_arrivals and not later_downs and end - t_r > 620.0:
            all_reqs = [e["t"] for e in w.console.rx if e["reading"]["kind"] == "group_status_request" and t_r + 1.0 < e["t"] <= t_r + 610.0]
            probes["c14.silence_after_outage"] = 1
            if not all_reqs:
                V.append(viol("C14.poll_missing", {"why": "no group status request within 610 s of silence after the reconnection", "reconnected_at": t_r,
                                                   "mode": sc["info"]["mode"], "outage_at": sc["info"].get("outage_at")}, first=False, after_outage=True))
    return common.result(w, V, nontrivial=True, probes=probes)


LEVEL_TEXT = (
    "Seeded search over outage kinds, instants and lengths on an initialised client (reconnect class) and over group status "
    "gap patterns (AT4 poll class, 1500 simulated seconds per run): the first frames on each new connection, convergence of the "
    "getters to the console's state, absence of notifications on an unchanged refresh, and the 300 s poll cadence against a "
    "reference deadline process. Sampled evidence."
)
LEVEL_NOTE = "Trusts ref/console.py and ref/model.py; the reference deadline process for the AT4 poll is derived from the property text."
TECHNIQUE = "deterministic simulation with injected outages (FIN, RST, black hole, console reboot, write error, refused/slow reconnect) and virtual-time silence; history check of refresh requests and poll cadence against a reference deadline process"
