"""Shared pieces of the per-property checks."""

from __future__ import annotations

from harness.world import World, HOST
from ref import model as refmodel
from ref import wire4, wire5

COMPONENTS_API = {
    "real": [
        "pyairtouch (all of it: api, socket, heartbeat, codecs, registries, crc)",
        "asyncio Task/Future/Event/Queue/timeout/wait_for/gather",
        "asyncio StreamReader/StreamWriter/StreamReaderProtocol",
        "BaseEventLoop call_soon/call_at/timer heap",
    ],
    "stub": [
        "clock and _run_once (sim/loop.py SimLoop: virtual time, simulator event queue)",
        "TCP transport and connect (sim/net.py SimTransport/SimNet)",
        "asyncio.as_completed (same algorithm, explicit drawn order)",
        "subscriber set type (insertion ordered)",
        "the console (ref/console.py, from the vendor documents)",
        "the user (scenario timeline)",
    ],
}

META = {"airtouch_id": "AT-ID", "serial": "S-1", "name": "Sim", "host": HOST}


def wire(gen: int):
    return wire4 if gen == 4 else wire5


def result(world: World, violations: list, *, nontrivial: bool = True, probes: dict | None = None, cross: dict | None = None, evals: int = 1) -> dict:
    pr = dict(world.trace.counters)
    if probes:
        for k, v in probes.items():
            pr[k] = pr.get(k, 0) + v
    if world.verdict == "harness":
        raise world.error
    return {
        "violations": violations,
        "digest": world.trace.digest(),
        "shape": world.trace.shape(),
        "nontrivial": nontrivial,
        "faults": dict(world.net.faults_fired),
        "probes": {k: v for k, v in pr.items() if v},
        "cross": cross or {},
        "sim_seconds": world.loop._vtime,
        "steps": world.loop.steps,
        "evals": evals,
    }


def feed_model(world: World, model: refmodel.Model, upto_seq: int | None = None, links=None) -> None:
    w = wire(world.gen)
    for tx in world.console.tx:
        if upto_seq is not None and tx["seq"] > upto_seq:
            break
        if links is not None and tx["link"] not in links:
            continue
        frames, verdict, _ = w.parse_stream(tx["raw"])
        if verdict != "clean":
            continue
        for fr in frames:
            model.feed(w.read(fr))


HANDSHAKE4 = ["version_request", "names_request", "ability_request", "ac_status_request", "timer_status_request", "group_status_request"]
HANDSHAKE5 = ["version_request", "names_request", "ability_request", "ac_status_request", "timer_status_request", "zone_status_request"]


def handshake(gen: int):
    return HANDSHAKE4 if gen == 4 else HANDSHAKE5


def viol(rule: str, detail, **sig) -> dict:
    return {"rule": rule, "detail": detail, "sig": sig}


def client_frames(world) -> list[dict]:
    """Every complete client frame on the wire tap: {seq, t, link, reading, fr} (time of its first byte)."""
    w = wire(world.gen)
    frames = []
    for link in world.net.links:
        buf = b"".join(d for (_s, _t, d) in link.tx_writes)
        frs, _verdict, _consumed = w.parse_stream(buf)
        offs, pos = [], 0
        for (s, t, d) in link.tx_writes:
            offs.append((pos, pos + len(d), s, t))
            pos += len(d)
        for fr in frs:
            first = next(o for o in offs if o[0] <= fr["at"] < o[1])
            frames.append({"seq": first[2], "t": first[3], "link": link.id, "reading": w.read(fr), "fr": fr})
    frames.sort(key=lambda f: f["seq"])
    return frames


def delivered_frames(world) -> list[dict]:
    """Console frames as they reached the client's transport (whole-frame chunks only): {seq, t, link, reading}."""
    w = wire(world.gen)
    out = []
    buf = {}
    for (seq, t, kind, f) in world.trace.events:
        if kind != "rx.chunk":
            continue
        b = buf.setdefault(f["link"], bytearray())
        b += bytes.fromhex(f["data"])
        frs, verdict, consumed = w.parse_stream(bytes(b))
        for fr in frs:
            out.append({"seq": seq, "t": t, "link": f["link"], "reading": w.read(fr)})
        if verdict.startswith("bad"):
            b.clear()
        else:
            del b[:consumed]
    return out


def link_lifetimes(world) -> list[dict]:
    """Per accepted link: established, first client-side close/force-close, lost."""
    out = {}
    for l in world.net.links:
        if l.t_accept is not None:
            out[l.id] = {"id": l.id, "up": l.t_accept, "close": None, "close_kind": None, "lost": None}
    for (seq, t, kind, f) in world.trace.events:
        lid = f.get("link")
        if lid not in out:
            continue
        if kind in ("conn.close", "conn.force_close") and out[lid]["close"] is None:
            out[lid]["close"] = t
            out[lid]["close_kind"] = kind
        elif kind == "conn.lost" and out[lid]["lost"] is None:
            out[lid]["lost"] = t
    return [out[k] for k in sorted(out)]
