"""Shared pieces of the per-property checks."""

from __future__ import annotations

from harness.world import World, HOST
from ref import model as refmodel
from ref import wire4, wire5

COMPONENTS_API = {
    "real": [
        "pyairtouch (all of it: api, socket, heartbeat, codecs, registries, crc)",
        "asyncio Task/Future/Event/Queue/timeout/wait_for/gather",
        "asyncio StreamReader/StreamWriter/StreamReaderProtocol",
        "BaseEventLoop call_soon/call_at/timer heap",
    ],
    "stub": [
        "clock and _run_once (sim/loop.py SimLoop: virtual time, simulator event queue)",
        "TCP transport and connect (sim/net.py SimTransport/SimNet)",
        "asyncio.as_completed (same algorithm, explicit drawn order)",
        "subscriber set type (insertion ordered)",
        "the console (ref/console.py, from the vendor documents)",
        "the user (scenario timeline)",
    ],
}

META = {"airtouch_id": "AT-ID", "serial": "S-1", "name": "Sim", "host": HOST}


def wire(gen: int):
    return wire4 if gen == 4 else wire5


def result(world: World, violations: list, *, nontrivial: bool = True, probes: dict | None = None, cross: dict | None = None, evals: int = 1) -> dict:
    pr = dict(world.trace.counters)
    if probes:
        for k, v in probes.items():
            pr[k] = pr.get(k, 0) + v
    if world.verdict == "harness":
        raise world.error
    return {
        "violations": violations,
        "digest": world.trace.digest(),
        "shape": world.trace.shape(),
        "nontrivial": nontrivial,
        "faults": dict(world.net.faults_fired),
        "probes": {k: v for k, v in pr.items() if v},
        "cross": cross or {},
        "sim_seconds": world.loop._vtime,
        "steps": world.loop.steps,
        "evals": evals,
    }


def feed_model(world: World, model: refmodel.Model, upto_seq: int | None = None, links=None) -> None:
    w = wire(world.gen)
    for tx in world.console.tx:
        if upto_seq is not None and tx["seq"] > upto_seq:
            break
        if links is not None and tx["link"] not in links:
            continue
        frames, verdict, _ = w.parse_stream(tx["raw"])
        if verdict != "clean":
            continue
        for fr in frames:
            model.feed(w.read(fr))


HANDSHAKE4 = ["version_request", "names_request", "ability_request", "ac_status_request", "timer_status_request", "group_status_request"]
HANDSHAKE5 = ["version_request", "names_request", "ability_request", "ac_status_request", "timer_status_request", "zone_status_request"]


def handshake(gen: int):
    return HANDSHAKE4 if gen == 4 else HANDSHAKE5


def viol(rule: str, detail, **sig) -> dict:
    return {"rule": rule, "detail": detail, "sig": sig}
