"""C15 - Shutdown is final, leak-free and reversible."""

from __future__ import annotations

from harness import gen as G
from harness.world import World
from ref import console as refconsole
from ref import model as refmodel

from . import common, sendq
from .common import viol

ID = "C15"
TITLE = "Shutdown is final, leak-free and reversible"
LEVEL = "exploration"
RULE = (
    "seeded scenarios: shutdown() of an AirTouch4/5 (api class) or close() of a bare AirTouchSocket (socket class) at an instant "
    "drawn with bias to: during connect latency, during the 2 s reconnect back-off, at each handshake step (answers delayed to "
    "widen the window), with messages pending, at heartbeat instants, during a reset after a fault; then >= 1000 idle simulated "
    "seconds; then optionally init()/open again against a console whose installation changed. Checked: nothing connects / writes "
    "after the call returned, no client task, timer or transport is left at the end of the idle period, sending raises the "
    "not-open error, every opened connection was closed, the later init() works and shows the new installation. non-trivial = "
    "shutdown fell inside an operation (connect in flight, back-off pending, handshake incomplete, message pending or fault just "
    "fired); distinct = trace shape"
)
COMPONENTS = common.COMPONENTS_API
ASSUMPTIONS = [
    "'after shutdown() returns' is the instant the awaiting task resumes; events in the same instant but earlier in the log are not counted",
    "tasks / timers created by the harness (user-call runners, the scenario driver) are excluded by identity; every other live task or pending TimerHandle belongs to the client",
]
PROBES = ["c15.at_client_timer_retry_delay", "c15.at_client_timer_heartbeat_tick", "c15.as_heartbeat_timeout_reset_closes", "c15.just_before_reconnection_completes", "c15.during_connect_latency", "c15.during_backoff", "c15.mid_handshake", "c15.message_pending", "c15.at_heartbeat", "c15.after_fault",
          "c15.reinit", "c15.reinit_changed_installation", "c15.socket_class", "c15.shutdown_twice", "c15.quick_reinit_with_pending", "c15.heartbeat_after_reinit", "c15.during_slow_reset", "c15.periodic_job_due_with_full_buffer", "c15.after_reconnection_dead_on_arrival", "c15.during_stalled_handshake", "c15.during_blocked_write", "c15.heartbeat_during_slow_close"]


def budget(tier: str) -> int:
    return 6000 if tier == "quick" else 500_000


def generate(rng, index: int, tier: str) -> dict:
    gen = rng.choice([4, 5])
    sock = rng.random() < 0.3
    lat = rng.choice([0.0, G.TICK, 2.0**-7, 2.0**-5])
    knobs = {"latency": lat, "seg": {"mode": "whole"}, "first_packet_id": rng.choice([0, 250])}
    inst = G.installation(rng, gen, allow_zero_zones=(gen == 5), max_zones=6, max_acs=2)
    where = rng.choice(["connect_latency", "backoff", "handshake", "connected", "heartbeat", "after_fault", "pending"])
    fates = []
    tl = []
    t0 = 0.0
    info = {"where": where, "socket": sock}
    if where == "connect_latency":
        L = rng.choice([0.5, 1.0, 3.0, 6.0])
        fates = [{"kind": "accept", "latency": L}]
        t_s = t0 + G.pick_time(rng, 0.0, L + 0.25, anchors=[L])
    elif where == "backoff":
        nfail = rng.choice([1, 2, 3])
        fates = [{"kind": rng.choice(["refuse", "unreachable", "timeout"]), "latency": rng.choice([0.0, 0.125])} for _ in range(nfail)]
        fates.append({"kind": "accept", "latency": rng.choice([0.0, 0.5])})
        t_fail = sum(f["latency"] for f in fates[:1])
        t_s = t0 + G.pick_time(rng, 0.0, t_fail + 2.0 * nfail + 0.5, anchors=[t_fail, t_fail + 2.0, t_fail + 4.0])
        if rng.random() < 0.3:
            # at the instant the j-th retry delay (a loop timer of the client) runs out, give or take a few loop passes
            j = rng.randint(1, nfail)
            t_j = sum(f["latency"] for f in fates[:j]) + 2.0 * j
            info["stop_at_client_close"] = "timer"
            info["stop_timer_window"] = [t_j - 0.0625, t_j + 0.0625]
            info["t_arm"] = t_j - 1.0
            info["timer_kind"] = "retry_delay"
            knobs["iter_cost"] = 2.0**-16
            info["stop_delta"] = rng.randint(-4, 8) * 2.0**-16
            t_s = t_j + 0.0625
    elif where == "handshake":
        d = rng.choice([0.0, 0.125, 0.5])
        if d:
            tl.append({"at": 0.0, "op": "console.delay", "delay": d})
        if rng.random() < 0.4:
            hs = common.handshake(gen)
            tl.append({"at": 0.0, "op": "console.mute", "kinds": hs[rng.randrange(len(hs)):]})
        fates = [{"kind": "accept", "latency": 0.0}]
        t_s = t0 + G.pick_time(rng, 0.0, 6 * (2 * lat + d) + 0.1 + (5.0 if rng.random() < 0.3 else 0.0), anchors=[k * (2 * lat + d) for k in range(1, 7)] + [5.0])
        if rng.random() < 0.35:
            # exactly the instant the last handshake answer is processed; yield jitter walks through the handler's awaits
            t_s = t0 + 6 * (2 * lat + d)
            info["last_step"] = True
        if not sock and rng.random() < 0.3:
            # flow control during the handshake: the peer's window closes just before the k-th answer is processed, so the
            # handler's next request (or, for an AC in error, the error description request it sends before it moves on) is
            # held in the transport; shutdown() lands there; the window opens later and the held handler runs on
            tl[:] = [x for x in tl if x["op"] not in ("console.delay", "console.mute")]
            L = 2.0**-5
            knobs["latency"] = L
            for a in inst["acs"]:
                if rng.random() < 0.7 and isinstance(a.get("state"), dict):
                    a["state"]["error"] = rng.choice([3, 5, 0x22])
            k = rng.randint(1, 6)
            t_stall = k * 2 * L - L / 2
            tl.append({"at": t_stall, "op": "net.stall", "on": True})
            t_s = k * 2 * L + rng.choice([L / 4, L, 0.25])
            tl.append({"at": t_s + rng.choice([0.25, 0.5, 2.0]), "op": "net.stall", "on": False})
            info["stalled_handshake"] = k
            info.pop("last_step", None)
    elif where == "heartbeat":
        fates = [{"kind": "accept", "latency": 0.0}]
        k = rng.choice([1, 2])
        t_s = G.pick_time(rng, 300.0 * k - 1.0, 300.0 * k + 31.0, anchors=[300.0 * k + 6 * 2 * lat, 300.0 * k + 30.0])
        if not sock and rng.random() < 0.35:
            # the heartbeat instant falls inside a shutdown that cannot finish at once: unflushed bytes under flow control,
            # the transport only goes away when the peer resets it
            # ... or the heartbeat's own write is the one that is held when shutdown() is called (shutdown 5 s after the tick)
            t_s = 300.0 * k + rng.choice([-1.0, -1.0, 5.0])
            t_b = 300.0 * k - 3.0
            tl.append({"at": t_b, "op": "net.stall", "on": True})
            tl.append({"at": t_b + 0.5, "op": "user.api", "target": ["at"], "call": "check_for_updates", "args": {}})
            tl.append({"at": t_s + rng.choice([3.0, 12.0, 40.0]), "op": "net.rst"})
            tl.append({"at": t_s + 50.0, "op": "net.stall", "on": False})
            info["heartbeat_during_slow_close"] = True
        elif not sock and rng.random() < 0.25:
            # at the instant the heartbeat's (or the AT4 poll's) own 300 s timer falls due, give or take a few loop passes
            info["stop_at_client_close"] = "timer"
            info["stop_timer_window"] = [300.0 * k - 0.5, 300.0 * k + 0.5 + 14 * lat]
            info["t_arm"] = 300.0 * k - 5.0
            info["timer_kind"] = "heartbeat_tick"
            knobs["iter_cost"] = 2.0**-16
            info["stop_delta"] = rng.randint(-4, 10) * 2.0**-16
            t_s = 300.0 * k + 1.0
        elif not sock and rng.random() < 0.4:
            # the console stops answering heartbeats: 330 s after the last answer the client resets the connection on its own,
            # and shutdown() is called in the loop pass in which that reset closes the transport
            tl.append({"at": 6.0 + 6 * 2 * lat, "op": "console.mute", "kinds": ["version_request"]})
            info["stop_at_client_close"] = rng.choice(["before", "after", "timer", "timer", "timer"])
            info["t_arm"] = 320.0
            t_s = 331.0
            if info["stop_at_client_close"] == "timer":
                # loop passes take a little time in these runs, so "a few passes before / after the deadline" is an instant
                knobs["iter_cost"] = 2.0**-16
                info["stop_delta"] = rng.randint(-8, 3) * 2.0**-16
    else:
        fates = [{"kind": "accept", "latency": 0.0}]
        t_s = G.dyadic(rng, 6.0, 20.0)
    if sock:
        tl.append({"at": t0, "op": "user.open"})
    else:
        tl.append({"at": t0, "op": "user.init"})
    if where == "after_fault" and rng.random() < 0.3:
        # a reset that cannot finish quickly: the transport still holds unflushed bytes (flow control),
        # the peer closes, the client's reset waits for the transport to close - and shutdown lands there
        dur = rng.choice([0.5, 2.0])
        t_st = t_s - rng.choice([0.125, 0.25])
        tl.append({"at": t_st - 0.25, "op": "net.stall", "on": True})
        tl.append({"at": t_st - 0.25 + dur + 1.0, "op": "net.stall", "on": False})
        if sock:
            tl.append({"at": t_st - 0.125, "op": "user.send", "msg": sendq.distinct_messages(rng, gen, 1)[0], "policy": "idem"})
        else:
            tl.append({"at": t_st - 0.125, "op": "user.api", "target": ["at"], "call": "check_for_updates", "args": {}})
        tl.append({"at": t_st, "op": "net.fates", "fates": [{"kind": "accept", "latency": 0.0}]})
        tl.append({"at": t_st, "op": rng.choice(["net.fin", "net.fin", "console.raw"]), "hex": "00" * 24})
        info["reset_in_progress"] = True
    elif where == "after_fault" and rng.random() < 0.25:
        # shutdown while a send is blocked in a flow-controlled write; the connection dies only afterwards, so the sender's
        # error handling runs when close() is already under way (or over)
        d = rng.choice([G.EPS, 0.125, 0.5])
        tl.append({"at": t_s - 0.25, "op": "net.stall", "on": True})
        if sock:
            tl.append({"at": t_s - 0.125, "op": "user.send", "msg": sendq.distinct_messages(rng, gen, 1)[0], "policy": "idem"})
        else:
            tl.append({"at": t_s - 0.125, "op": "user.api", "target": ["at"], "call": "check_for_updates", "args": {}})
        tl.append({"at": t_s + d, "op": "net.rst"})
        tl.append({"at": t_s + d + 0.5, "op": "net.stall", "on": False})
        info["blocked_write"] = True
    elif where == "after_fault":
        kind = rng.choice(["fin", "rst", "write"])
        gap = rng.choice([0.0, G.EPS, lat, lat + G.EPS, 0.5, 1.0, 2.0, 2.0 + G.EPS])
        recon = rng.choice([[{"kind": "accept", "latency": rng.choice([0.0, 0.5, 3.0])}], [{"kind": "refuse", "latency": 0.0}, {"kind": "accept", "latency": 0.0}],
                            [{"kind": "refuse", "latency": 0.0}] * 3])
        if not sock and kind != "write" and rng.random() < 0.35:
            # a second fault during the recovery: the first connection that comes up is reset by the console at once (the
            # client's refresh meets a dead transport), the next one is healthy - the recovery paths of both faults overlap,
            # and shutdown() lands within the 2 s in which a delayed retry of the first one may still be pending
            recon = [{"kind": "accept", "latency": rng.choice([0.0, 0.125])}, {"kind": "accept", "latency": rng.choice([0.0, 0.125])}]
            tl.append({"at": t_s - gap - G.EPS, "op": "net.rst_next_accept", "delay": rng.choice([0.0, G.EPS, lat, lat + G.EPS])})
            gap = rng.choice([0.25, 0.5, 1.0, 1.5, 2.0 - G.EPS])
            for x in tl:
                if x["op"] == "net.rst_next_accept":
                    x["at"] = t_s - gap - G.EPS
            info["dead_on_arrival"] = True
        if not info.get("dead_on_arrival") and rng.random() < 0.3:
            # shutdown() / close() is called a few loop passes before the reconnection attempt that the fault set off
            # completes: the attempt comes up in the middle of the shutdown sequence (between two of its awaits)
            recon = rng.choice([[{"kind": "accept", "latency": rng.choice([0.0, 0.5, 3.0])}], [{"kind": "refuse", "latency": 0.0}, {"kind": "accept", "latency": rng.choice([0.0, 0.5])}]])
            info["stop_before_accept"] = rng.choice([0, 1, 2, 3, 4, 5, 6, 7, 8, 10, 12])
            info["t_arm"] = t_s - gap - G.EPS
        tl.append({"at": t_s - gap - G.EPS, "op": "net.fates", "fates": recon})
        if kind == "write":
            tl.append({"at": t_s - gap - G.EPS, "op": "net.fail_write", "nth": rng.choice([1, 2, 3]), "err": "EPIPE"})
            if sock:
                tl.append({"at": t_s - gap, "op": "user.send", "msg": sendq.distinct_messages(rng, gen, 1)[0], "policy": "idem"})
            else:
                tl.append({"at": t_s - gap, "op": "user.api", "target": ["at"], "call": "check_for_updates", "args": {}})
        else:
            tl.append({"at": t_s - gap, "op": "net." + kind})
    if where == "pending" and gen == 4 and not sock and rng.random() < 0.35:
        # the link has been down for a while, the user has filled the buffer of pending messages (ten commands), and one of the
        # client's own periodic jobs (the AT4 group poll, 300 s after the handshake) falls due just before shutdown()
        where = "pending_full"
        info["where"] = "pending"
        info["poll_with_full_buffer"] = True
        t_s = 300.0 + rng.choice([2.0, 5.0, 20.0])
        tl.append({"at": 280.0 - G.EPS, "op": "net.fates", "fates": [{"kind": "refuse", "latency": 0.0}] * 40})
        tl.append({"at": 280.0, "op": "net.rst"})
        for i in range(rng.choice([10, 10, 11])):
            tl.append({"at": 290.0 + i * G.TICK, "op": "user.api", "target": ["at"], "call": "check_for_updates", "args": {}})
    if where == "pending":
        # messages wait in the queue: the link goes down and stays down
        tl.append({"at": t_s - 1.0, "op": "net.fates", "fates": [{"kind": "refuse", "latency": 0.0}] * 2 + [{"kind": "accept", "latency": 0.0}]})
        tl.append({"at": t_s - 1.0, "op": "net.rst"})
        for i, d in enumerate(sendq.distinct_messages(rng, gen, rng.choice([1, 3]))):
            if sock:
                tl.append({"at": t_s - 0.5 + i * G.TICK, "op": "user.send", "msg": d, "policy": "idem"})
            else:
                tl.append({"at": t_s - 0.5 + i * G.TICK, "op": "user.api", "target": ["at"], "call": "check_for_updates", "args": {}})
    knobs["fates"] = fates
    stop_op = "user.close" if sock else "user.shutdown"
    stop_step = {"at": t_s, "op": stop_op, "yields": rng.choice([2, 3, 4, 5, 6, 7, 8, 10]) if info.get("last_step") else rng.choice([0, 0, 1, 2, 3, 4, 5, 6, 8]), "stop": True}
    if "stop_at_client_close" in info:
        if info["stop_at_client_close"] == "timer":
            # ... or at the very instant the client's heartbeat deadline (a loop timer) falls due, give or take a few loop passes
            lo_w, hi_w = info.get("stop_timer_window", [329.0, 332.0])
            tl.append({"at": info.pop("t_arm"), "op": "sched.at_timer", "lo": lo_w, "hi": hi_w, "delta": info.get("stop_delta", 0.0), "then": stop_step})
        else:
            tl.append({"at": info.pop("t_arm"), "op": "net.at_client_close", "order": info["stop_at_client_close"], "then": stop_step})
        t_s += 5.0
    elif "stop_before_accept" in info:
        # the call is made when the attempt is about to complete (at most 5.5 s after the fault); what follows is planned after that
        tl.append({"at": info.pop("t_arm"), "op": "net.before_accept", "passes": info["stop_before_accept"], "then": stop_step})
        t_s += 6.0
    else:
        tl.append(stop_step)
    if rng.random() < 0.15:
        tl.append({"at": t_s + rng.choice([0.0, G.EPS, 1.0]), "op": stop_op, "second": True})
        info["twice"] = True
    # mostly >= 1000 idle seconds; sometimes a quick re-init while queued messages would still be alive
    idle = rng.choice([1000.0, 1000.0, 1500.0, 2.0, 10.0])
    if info.get("reset_in_progress") and idle < 10.0:
        idle = 10.0
    if info.get("blocked_write") and rng.random() < 0.7:
        idle = rng.choice([2.0, 10.0])
    if info.get("heartbeat_during_slow_close") and idle < 100.0:
        idle = 100.0
    if info.get("stalled_handshake") and idle < 10.0:
        idle = 10.0
    t_idle_end = t_s + idle
    info["idle"] = idle
    # sending after shutdown must raise the not-open error
    t_send = t_s + G.dyadic(rng, 1.0, min(900.0, idle - 0.5))
    if sock:
        tl.append({"at": t_send, "op": "user.send", "msg": {"kind": "ac_status_request"}, "policy": "idem", "after_stop": True})
    else:
        tl.append({"at": t_send, "op": "user.api", "target": ["at"], "call": "check_for_updates", "args": {}, "after_stop": True})
    tl.append({"at": t_idle_end, "op": "user.leakcheck", "label": "idle_end"})
    end = t_idle_end + 1.0
    if rng.random() < 0.6:
        info["reinit"] = True
        t_r = t_idle_end + 1.0
        tl.append({"at": t_r - 0.5, "op": "net.clear_faults"})
        tl.append({"at": t_r - 0.5, "op": "net.default_fate", "kind": "accept", "latency": 0.0})
        tl.append({"at": t_r - 0.5, "op": "console.mute", "kinds": []})
        tl.append({"at": t_r - 0.5, "op": "console.delay", "delay": 0.0})
        if rng.random() < 0.6 and not sock:
            inst2 = G.installation(rng, gen, allow_zero_zones=(gen == 5), max_zones=6, max_acs=3)
            tl.append({"at": t_r - 0.5, "op": "console.install", "installation": inst2})
            info["inst2"] = inst2
        if sock:
            tl.append({"at": t_r, "op": "user.open", "reopen": True})
            tl.append({"at": t_r + 2.0, "op": "user.send", "msg": {"kind": "timer_status_request"}, "policy": "idem", "after_reopen": True})
        else:
            tl.append({"at": t_r, "op": "user.init", "reinit": True})
            tl.append({"at": t_r + 6.0, "op": "user.snapshot", "label": "reinit"})
        end = t_r + 8.0
        if not sock and rng.random() < 0.4:
            # the re-initialised object must behave like a fresh one: heartbeat (and AT4 poll) running again
            end = t_r + 640.0
            info["watch_heartbeat"] = True
    tl.sort(key=lambda s: s["at"])
    return {"gen": gen, "mode": "socket" if sock else "api", "installation": inst, "knobs": knobs, "timeline": tl, "end": end, "info": info}


def execute(sc: dict) -> dict:
    gen = sc["gen"]
    info = sc.get("info", {})
    sock = sc["mode"] == "socket"
    w = World(sc)
    if sock:
        w.console.apply_controls = False
    w.run()
    V = []
    probes = {}
    if sock:
        probes["c15.socket_class"] = 1
    stop = next((c for c in w.calls if c["step"].get("stop")), None)
    if stop is None or stop["t_call"] is None:
        return common.result(w, V, nontrivial=False)
    # flow control: while the peer's window stays closed a transport with unflushed bytes cannot finish closing, and
    # close()/shutdown() waits for it (as on a real socket); nothing is required of a call that has not returned yet
    stalled_until = 0.0
    for st in sc["timeline"]:
        if st["op"] == "net.stall":
            stalled_until = float("inf") if st.get("on", True) else st["at"]
    if stalled_until >= sc.get("end", 0.0) - 1.0:
        stalled_until = float("inf")  # the window is still closed when the run ends
    if stop["t_ret"] is None:
        if stalled_until == float("inf"):
            return common.result(w, V, nontrivial=False, probes=probes)
        V.append(viol("C15.shutdown_hangs", {"t_call": stop["t_call"]}))
        return common.result(w, V, nontrivial=True, probes=probes)
    if stop["exc"] is not None:
        V.append(viol("C15.shutdown_raises", {"exc": repr(stop["exc"])}))
    seq_ret = stop["seq_ret"]
    # concurrent shutdown()/close() calls: the operation is over when the last overlapping call returned
    stop_ops = [c for c in w.calls if c["op"] == stop["op"] and c["seq_call"] is not None and c["seq_ret"] is not None]
    changed = True
    lo = stop["seq_call"]
    while changed:
        changed = False
        for c in stop_ops:
            if c["seq_call"] <= seq_ret and c["seq_ret"] > seq_ret and c["seq_ret"] >= lo:
                seq_ret = c["seq_ret"]
                changed = True
            if c["seq_ret"] >= lo and c["seq_call"] < lo and c["seq_ret"] <= seq_ret:
                lo = c["seq_call"]
    reopen = next((c for c in w.calls if c["step"].get("reinit") or c["step"].get("reopen")), None)
    seq_reopen = reopen["seq_call"] if reopen is not None and reopen["seq_call"] is not None else 10**12
    ev = w.trace.events
    # classification probes
    before = [e for e in ev if e[0] < stop["seq_call"]]
    attempts = {}
    for e in before:
        if e[2] == "net.connect_attempt":
            attempts[e[3]["n"]] = "inflight"
        elif e[2] in ("net.connect_result", "net.connect_cancelled"):
            attempts[e[3]["n"]] = "done_ok" if e[3].get("ok") else "done_fail"
    nontrivial = False
    if any(v == "inflight" for v in attempts.values()):
        probes["c15.during_connect_latency"] = 1
        nontrivial = True
    elif attempts and list(attempts.values())[-1] == "done_fail":
        probes["c15.during_backoff"] = 1
        nontrivial = True
    first_init = next((c for c in w.calls if c["op"] == "user.init" and not c["step"].get("reinit")), None)
    if first_init is not None and (first_init["t_ret"] is None or first_init["t_ret"] >= stop["t_call"]) and any(v == "done_ok" for v in attempts.values()):
        probes["c15.mid_handshake"] = 1
        nontrivial = True
    if info.get("where") == "pending":
        probes["c15.message_pending"] = 1
        nontrivial = True
    if info.get("where") == "heartbeat":
        probes["c15.at_heartbeat"] = 1
    if info.get("where") == "after_fault":
        probes["c15.after_fault"] = 1
        nontrivial = True
    if info.get("reset_in_progress"):
        probes["c15.during_slow_reset"] = 1
    if info.get("blocked_write"):
        probes["c15.during_blocked_write"] = 1
    if info.get("stalled_handshake"):
        probes["c15.during_stalled_handshake"] = 1
    if info.get("dead_on_arrival"):
        probes["c15.after_reconnection_dead_on_arrival"] = 1
    if "stop_before_accept" in info:
        probes["c15.just_before_reconnection_completes"] = 1
    if info.get("timer_kind"):
        probes["c15.at_client_timer_" + info["timer_kind"]] = 1
    elif "stop_at_client_close" in info:
        probes["c15.as_heartbeat_timeout_reset_closes"] = 1
    if info.get("poll_with_full_buffer"):
        probes["c15.periodic_job_due_with_full_buffer"] = 1
    if info.get("heartbeat_during_slow_close"):
        probes["c15.heartbeat_during_slow_close"] = 1
    if info.get("twice"):
        probes["c15.shutdown_twice"] = 1
    if info.get("where") == "pending" and info.get("idle", 1000.0) < 20.0 and info.get("reinit"):
        probes["c15.quick_reinit_with_pending"] = 1
    # 1. nothing after shutdown returned (until a re-open)
    for e in ev:
        if e[0] <= seq_ret or e[0] >= seq_reopen:
            continue
        if e[2] == "net.connect_attempt":
            V.append(viol("C15.connect_after_shutdown", {"t": e[1], "after": stop["t_ret"], "where": info.get("where")}, where=info.get("where")))
            break
        if e[2] in ("tx.write",):
            V.append(viol("C15.write_after_shutdown", {"t": e[1], "after": stop["t_ret"], "data": e[3]["data"][:40]}))
            break
        if e[2] == "net.connect_result" and e[3].get("ok"):
            V.append(viol("C15.connection_after_shutdown", {"t": e[1], "after": stop["t_ret"], "link": e[3]["link"]}, where=info.get("where")))
            break
        if e[2] == "sock.connected" and e[3]["v"] is True:
            V.append(viol("C15.connected_notification_after_shutdown", {"t": e[1]}))
            break
    # 1b. "every connection that was opened has been closed" - when the call returns, not some time later: a transport the
    # client opened before shutdown() returned must complete its close (connection_lost delivered) in that same instant (an
    # idle transport needs one more loop pass after close(); one that still has bytes to flush to a peer whose window is
    # closed needs until the window opens - shutdown() has to wait for that, as close() of the socket does)
    overlapping_unfinished = any(c["op"] == stop["op"] and c["seq_call"] is not None and c["seq_call"] <= seq_ret and c["seq_ret"] is None for c in w.calls)
    if not V and not overlapping_unfinished:
        made = {e[3]["link"]: e[0] for e in ev if e[2] == "conn.made" and e[0] < seq_ret}
        t_over = next((e[1] for e in ev if e[0] == seq_ret), stop["t_ret"])  # the instant the (merged) operation was over
        # (in runs whose loop passes take time an "instant" is a few dozen passes long, as it may be in any other run)
        slack = 64 * float(sc.get("knobs", {}).get("iter_cost") or 0.0)
        lost = {e[3]["link"] for e in ev if e[2] == "conn.lost" and e[1] <= t_over + slack}
        still = sorted(l for l in made if l not in lost)
        if still:
            V.append(viol("C15.open_when_shutdown_returned", {"links": still, "returned_at": stop["t_ret"], "where": info.get("where"),
                                                             "reset_in_progress": bool(info.get("reset_in_progress"))}, where=info.get("where")))
    # 2. leak check at the end of the idle period
    leak = next((l for l in w.leaks if l["label"] == "idle_end"), None)
    if leak is not None and stop["t_ret"] >= leak["t"]:  # (same instant: the order of the two is the schedule's, nothing to judge)
        if leak["t"] > stalled_until + 1.0:
            V.append(viol("C15.shutdown_hangs", {"t_call": stop["t_call"], "t_ret": stop["t_ret"]}))
        leak = None
    if leak is not None and not V:
        # a user call that has not returned yet (init() inside its own 5 s wait) owns its timeout timer
        busy_init = [w.calls[i] for i in leak["busy_user_calls"] if w.calls[i]["op"] == "user.init"]
        if busy_init:
            own = {c["t_call"] + 5.0 for c in busy_init}
            leak = dict(leak, timers=[t for t in leak["timers"] if not (t[1] == "Timeout._on_timeout" and any(abs(t[0] - o) < 1e-6 for o in own))])
            if info.get("idle", 1000.0) < 20.0:
                leak["busy_user_calls"] = [i for i in leak["busy_user_calls"] if w.calls[i]["op"] != "user.init"]
        if leak["tasks"]:
            V.append(viol("C15.leak.task", {"tasks": leak["tasks"][:6], "where": info.get("where")}, task=leak["tasks"][0]))
        elif leak["timers"]:
            V.append(viol("C15.leak.timer", {"timers": leak["timers"][:6]}, timer=leak["timers"][0][1]))
        elif leak["live_links"] or leak["open_links"]:
            V.append(viol("C15.leak.connection", {"live": leak["live_links"], "open": leak["open_links"], "where": info.get("where")}))
        elif leak["busy_user_calls"]:
            V.append(viol("C15.call_never_returned", {"calls": [w.calls[i]["op"] for i in leak["busy_user_calls"]]}))
    # 3. sending raises the not-open error
    for c in w.calls:
        if c["step"].get("after_stop") and c["t_call"] is not None and c["seq_call"] > seq_ret and c["seq_call"] < seq_reopen:
            name = type(c["exc"]).__name__ if c["exc"] is not None else None
            if name != "NotOpenError" and not V:
                V.append(viol("C15.send_after_shutdown", {"got": name, "op": c["op"]}))
    # 4. reversible
    if reopen is not None and reopen["t_call"] is not None and not V:
        probes["c15.reinit"] = 1
        if sock:
            cmd = next((c for c in w.calls if c["step"].get("after_reopen")), None)
            got = [e for e in w.console.rx if e["t"] >= reopen["t_call"] and e["reading"]["kind"] == "timer_status_request"]
            if cmd is None or cmd["exc"] is not None or not got:
                V.append(viol("C15.reopen_failed", {"exc": repr(cmd["exc"]) if cmd else None, "frames_at_console": len(got)}))
            stale = [e for e in w.console.rx if e["t"] >= reopen["t_call"] and e["reading"]["kind"] not in ("timer_status_request",)]
            if stale:
                V.append(viol("C15.stale_message_after_reopen", {"kinds": [e["reading"]["kind"] for e in stale][:5]}))
        else:
            if reopen["result"] is not True:
                V.append(viol("C15.reinit_failed", {"result": reopen["result"], "exc": repr(reopen["exc"]), "where": info.get("where")}, where=info.get("where")))
            else:
                snap = next((s for (_t, lbl, s) in w.snapshots if lbl == "reinit"), None)
                inst2 = info.get("inst2") or sc["installation"]
                if info.get("inst2"):
                    probes["c15.reinit_changed_installation"] = 1
                if snap is not None:
                    m = refmodel.Model(gen, inst2, common.META)
                    wire = common.wire(gen)
                    for tx in w.console.tx:
                        if tx["t"] < reopen["t_call"] or tx["seq"] > snap["_seq"]:
                            continue
                        frs, verdict, _ = wire.parse_stream(tx["raw"])
                        if verdict == "clean":
                            for fr in frs:
                                m.feed(wire.read(fr))
                    diffs = refmodel.compare(m.expected(), snap)
                    if diffs:
                        V.append(viol("C15.model_after_reinit", {"diffs": diffs[:4]}, attr=diffs[0]["attr"]))
                if info.get("watch_heartbeat") and reopen["t_ret"] is not None and not V:
                    probes["c15.heartbeat_after_reinit"] = 1
                    t_h = reopen["t_ret"]
                    vr = [e["t"] for e in w.console.rx if e["reading"]["kind"] == "version_request" and e["t"] > t_h + 1.0]
                    for k in (1, 2):
                        if not any(abs(t - (t_h + 300.0 * k)) < 0.5 for t in vr):
                            V.append(viol("C15.no_heartbeat_after_reinit", {"reinit_done": t_h, "version_requests": vr[:6], "missing_tick": k}))
                            break
                    if len(vr) > 2 and not V:
                        V.append(viol("C15.duplicate_heartbeat_after_reinit", {"reinit_done": t_h, "version_requests": vr[:8]}))
                    if gen == 4 and not V:
                        gr = [e["t"] for e in w.console.rx if e["reading"]["kind"] == "group_status_request" and e["t"] > t_h + 1.0]
                        # 300 s after the last group status the re-initialised client received (normally the handshake's)
                        arr = [x["t"] for x in w.console.tx if x["kind"] == "group_status" and x["t"] >= reopen["t_call"]]
                        if not any(abs(t - (a + 300.0)) < 0.5 for t in gr for a in arr + [t_h]):
                            V.append(viol("C15.no_group_poll_after_reinit", {"reinit_done": t_h, "group_requests": gr[:6]}))
                        elif len(gr) > 2:
                            V.append(viol("C15.duplicate_group_poll_after_reinit", {"group_requests": gr[:8]}))
                # the handshake after re-init is the normal one
                hs = common.handshake(gen)
                rx = [e["reading"]["kind"] for e in w.console.rx if e["t"] >= reopen["t_call"] and e["t"] <= reopen["t_ret"] + 0.1]
                six = [k for k in rx if k in hs]
                if six[: len(hs)] != hs and not V:
                    V.append(viol("C15.reinit_handshake", {"seen": rx[:12]}))
    if w.verdict == "stepcap":
        V.append(viol("C15.stepcap", {}))
    return common.result(w, V, nontrivial=nontrivial, probes=probes)


LEVEL_TEXT = (
    "Seeded search over the instant of shutdown()/close() relative to connect attempts, back-off timers, handshake steps, "
    "pending messages, heartbeats and fault handling - including instants placed at run time a few loop passes around the client's own "
    "timers (heartbeat deadline and tick, retry delays) and just before an in-flight reconnection completes - followed by >= 1000 "
    "idle simulated seconds and an optional re-init: the "
    "simulated network shows every later connect or write, the virtual loop lists every task and timer left, and the re-init is "
    "checked against a reference model of the (changed) installation. Sampled evidence."
)
LEVEL_NOTE = "Leak detection relies on SimLoop's introspection of its own ready queue, timer heap and task registry (the harness' own tasks are excluded by identity)."
TECHNIQUE = "deterministic simulation with seeded shutdown instants (crash-point style) inside in-flight operations, virtual idle time, loop introspection for leaked tasks/timers/transports, re-init against a reference model"
