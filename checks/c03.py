"""C03 - Every message frames and parses back identically, lengths agree."""

from __future__ import annotations

import asyncio

from harness import adapter, framegen
from harness import gen as G
from harness.world import World
from ref import encode as refencode
from ref import wire4, wire5

from . import common, readcmp, sendq
from .common import viol

ID = "C03"
TITLE = "Every message frames and parses back identically, lengths agree"
LEVEL = "exploration"
RULE = (
    "relay through the real send and receive paths: the console emits a reference-encoded frame of each of the 36 message / "
    "request kinds (status, ability, names, version, error, timer, control, quick timer, and every request; values from the "
    "protocol domains, 0..16 records, multi-byte UTF-8 names, every packet id) -> the real receive path delivers (header, "
    "message) -> that very object is passed to the real send() -> the frame it writes is parsed by the reference framing "
    "(declared length = bytes produced, for the wrapper and the sub-message), read by the reference decoders and compared "
    "with the reading of the original frame -> it is echoed back (randomly segmented) and must yield an equal message with "
    "nothing left over. non-trivial = every frame; distinct = (kind, payload bytes)"
)
COMPONENTS = {
    "real": ["AirTouchSocket.send / _write / _read_one_message", "header factory / encoder / decoder (AT4 8-byte, AT5 outer+inner)", "all message encoders and decoders incl. 0x1F / 0xC0 wrappers", "crc16"],
    "stub": ["clock/_run_once", "TCP", "console = frame source and echo"],
}
ASSUMPTIONS = [
    "input-quantified property: the simulator is the vehicle (fit: V)",
    "frames are compared by their reference reading (don't-care bits may differ between the reference encoder and pyairtouch's)",
    "only values the documents define are generated (no not-available codes in non-optional fields)",
]
PROBES = ["c03.records_reordered", "c03.zero_records", "c03.request_kind", "c03.control_kind", "c03.status_kind", "c03.multibyte_utf8", "c03.zero_temperature", "c03.many_records", "c03.segmented_echo"]
TRUSTED_BASE = ["ref/wire4.py, ref/wire5.py, ref/encode.py"]
PER_RUN = 24


def budget(tier: str) -> int:
    return 1500 if tier == "quick" else 100_000


def _client_kind_frame(rng, gen: int) -> bytes:
    """Requests, control messages, quick timer, timer control - as a console would echo / another client would send them."""
    w = common.wire(gen)
    r = rng.random()
    pid = rng.randrange(256)
    if r < 0.55:
        d = sendq._one(rng, gen)
        return refencode.frame(gen, d, pid)
    if r < 0.8:
        kinds = ["version_request", "ac_status_request", "timer_status_request", "group_status_request" if gen == 4 else "zone_status_request"]
        d = {"kind": rng.choice(kinds)}
        if rng.random() < 0.3:
            d = rng.choice([{"kind": "ability_request", "ac": "all"}, {"kind": "names_request", ("group" if gen == 4 else "zone"): "all"}])
        return refencode.frame(gen, d, pid)
    # timer control
    if gen == 4:
        recs = {i: {"on": G.timer(rng), "off": G.timer(rng)} for i in range(4)}
        return wire4.frame(0x80, 0xB0, pid, wire4.T_TIMER_CTRL, wire4.enc_timer_records(recs))
    n = rng.choice([1, 2, 4])
    recs = [wire5.enc_timer_record({"ac": i, "on": G.timer(rng), "off": G.timer(rng)}) for i in sorted(rng.sample(range(16), n))]
    return wire5.frame(0x80, 0xB0, pid, wire5.T_CS, wire5.sub_header(wire5.S_TIMER_CTRL, 0, 9, len(recs)) + b"".join(recs))


def generate(rng, index: int, tier: str) -> dict:
    gen = rng.choice([4, 5])
    frames = []
    for i in range(PER_RUN):
        if rng.random() < 0.06:
            f, _k = framegen.maximal_frame(rng, gen)  # a defined message at the largest size its layout allows
        elif rng.random() < 0.55:
            f, _k = framegen.frame(rng, gen)
            if rng.random() < 0.15:
                f = _zero_temp_frame(rng, gen)
            elif gen == 5 and rng.random() < 0.12:
                f = _zero_record_frame(rng)
        else:
            f = _client_kind_frame(rng, gen)
        frames.append(f)
    tl = [{"at": 0.0, "op": "user.open"}]
    t = 1.0
    for f in frames:
        st = {"at": t, "op": "console.raw", "hex": f.hex(), "input": True}
        if rng.random() < 0.35:
            st["permute"] = rng.getrandbits(16)
        tl.append(st)
        t += 0.5
    knobs = {"latency": rng.choice([0.0, G.TICK]), "first_packet_id": rng.randrange(256),
             "seg": rng.choice([{"mode": "whole"}, {"mode": "random", "seed": rng.getrandbits(16), "max": 4}, {"mode": "bytes"}])}
    return {"gen": gen, "mode": "socket", "knobs": knobs, "timeline": tl, "end": t + 1.0}


def _zero_record_frame(rng) -> bytes:
    """AT5 status / control with repeat count 0 (the record length is still announced): not a request."""
    sub, rl = rng.choice([(wire5.S_ZONE_STATUS, 8), (wire5.S_AC_STATUS, 10), (wire5.S_TIMER_STATUS, 9), (wire5.S_ZONE_CTRL, 4), (wire5.S_AC_CTRL, 4)])
    return wire5.f_cs(rng.randrange(256), sub, [], rlen=rl)


def _zero_temp_frame(rng, gen: int) -> bytes:
    if gen == 4:
        if rng.random() < 0.5:
            z = dict(G.zone_state(rng, 4), group=rng.randint(0, 15), sensor=True, temp=0.0, setpoint=rng.randint(1, 30))
            return wire4.f_status(1, wire4.T_GROUP_STATUS, wire4.enc_group_status_record(z))
        return wire4.f_status(1, wire4.T_AC_STATUS, wire4.enc_ac_status_record(dict(G.ac_state(rng, 4), ac=0, temp=0.0)))
    if rng.random() < 0.5:
        z = dict(G.zone_state(rng, 5), zone=rng.randint(0, 15), sensor=True, temp=0.0, setpoint=20.0)
        return wire5.f_cs(1, wire5.S_ZONE_STATUS, [wire5.enc_zone_status_record(z)])
    return wire5.f_cs(1, wire5.S_AC_STATUS, [wire5.enc_ac_status_record(dict(G.ac_state(rng, 5), ac=0, temp=0.0))])


def execute(sc: dict) -> dict:
    gen = sc["gen"]
    wire = common.wire(gen)
    w = World(sc)
    w.console.silent = True
    state = {"phase": {}}
    steps = [st for st in sc["timeline"] if st.get("input")]

    def on_message(world, entry):
        # first delivery of each input frame: hand the very object to the real send path
        t = entry["t"]
        idx = max((i for i, st in enumerate(steps) if st["at"] <= t), default=None)
        if idx is None:
            return
        ph = state["phase"].setdefault(idx, {"first": None, "second": None, "sent": None})
        if ph["first"] is None:
            ph["first"] = entry
            obj = entry["message"]
            if steps[idx].get("permute") is not None:
                # the same message with its records listed in another order (the order of a list is not part of any wire format
                # with explicit or implicit record numbers)
                import random as _r

                alt = adapter.permute_records(obj, _r.Random(steps[idx]["permute"]))
                if alt is not None:
                    obj = alt
                    ph["permuted"] = alt
            step = {"op": "user.send_object", "at": t, "_obj": obj, "policy": "idem"}
            world.op_user_send_object(step)
        elif ph["second"] is None:
            ph["second"] = entry

    def on_frame(reading, entry):
        # echo the client's frame back to it
        link = w.net.links[entry["link"]]
        if not link.server_closed:
            link.send(entry["frame"]["raw"])

    w.hooks["message"] = [on_message]
    w.console.on_frame = on_frame
    w.run()
    V = []
    probes = {}
    opened = any(c["op"] == "user.open" and c["t_call"] is not None for c in w.calls)
    if not opened or not steps:
        return common.result(w, V, nontrivial=False)
    evals = 0
    sets = set()
    if sc["knobs"].get("seg", {}).get("mode", "whole") != "whole":
        probes["c03.segmented_echo"] = 1
    for idx, st in enumerate(steps):
        raw = bytes.fromhex(st["hex"])
        frames, verdict, _ = wire.parse_stream(raw)
        if verdict != "clean" or len(frames) != 1:
            continue
        ref = wire.read(frames[0])
        ph = state["phase"].get(idx)
        evals += 1
        sets.add((ref["kind"], frames[0]["data"]))
        k = ref["kind"]
        if k.endswith("_request"):
            probes["c03.request_kind"] = 1
        elif k.endswith("control") or k == "quick_timer":
            probes["c03.control_kind"] = 1
        else:
            probes["c03.status_kind"] = 1
        if any(b >= 0x80 for b in frames[0]["data"]) and k in ("names", "ability", "error_info"):
            probes["c03.multibyte_utf8"] = 1
        if ph is None or ph["first"] is None:
            V.append(viol("C03.not_received", {"frame": raw.hex(), "kind": k}, kind=k, gen=gen))
            break
        # the frame written by the send path
        t_lo = st["at"]
        t_hi = steps[idx + 1]["at"] if idx + 1 < len(steps) else 1e18
        sent = [e for e in w.console.rx if t_lo <= e["t"] < t_hi]
        bad = [e for e in w.console.rx_bad if t_lo <= e["t"] < t_hi]
        call = next((c for c in w.calls if c["op"] == "user.send_object" and c["step"]["at"] >= t_lo and c["step"]["at"] < t_hi), None)
        if bad:
            V.append(viol("C03.frame_malformed", {"kind": k, "console_saw": bad[0], "original": raw.hex()}, kind=k, gen=gen))
            break
        if call is not None and call["exc"] is not None:
            V.append(viol("C03.send_raised", {"kind": k, "exc": repr(call["exc"]), "original": raw.hex()}, kind=k, gen=gen))
            break
        if len(sent) != 1:
            V.append(viol("C03.not_sent_once", {"kind": k, "frames": len(sent), "original": raw.hex()}, kind=k, gen=gen))
            break
        out = sent[0]
        fr2 = out["frame"]
        r2 = out["reading"]
        # lengths: declared == produced, nested too (the reference reading is UNDEF when they disagree)
        if r2["kind"] == "undef":
            V.append(viol("C03.length_disagreement", {"kind": k, "why": r2.get("why"), "sent": fr2["raw"].hex(), "original": raw.hex()}, kind=k, gen=gen))
            break
        to_want = 0x90 if fr2["type"] == 0x1F else 0x80
        if fr2["to"] != to_want or fr2["frm"] != 0xB0 or fr2["type"] != frames[0]["type"]:
            V.append(viol("C03.header_fields", {"kind": k, "to": fr2["to"], "from": fr2["frm"], "type": fr2["type"]}, kind=k))
            break
        permuted = ph.get("permuted") is not None
        if permuted:
            probes["c03.records_reordered"] = 1
        if not _same_reading(gen, _by_id(ref) if permuted else ref, _by_id(r2) if permuted else r2):
            V.append(viol("C03.payload_changed", {"kind": k, "original": frames[0]["data"].hex(), "resent": fr2["data"].hex(),
                                                  "original_reading": repr(ref)[:300], "resent_reading": repr(r2)[:300]}, kind=k, gen=gen))
            break
        if _has_zero_temp(ref):
            probes["c03.zero_temperature"] = 1
        if any(isinstance(v, list) and len(v) >= 8 for v in ref.values()):
            probes["c03.many_records"] = 1
        if gen == 5 and any(isinstance(v, list) and not v for v in ref.values()):
            probes["c03.zero_records"] = 1
        # second delivery equals the first
        if ph["second"] is None:
            V.append(viol("C03.echo_not_received", {"kind": k, "resent": fr2["raw"].hex(), "links": len(w.net.links)}, kind=k, gen=gen))
            break
        m1, m2 = ph["first"]["message"], ph["second"]["message"]
        h2 = ph["second"]["header"]
        if permuted:
            if adapter.records_multiset(ph["permuted"]) != adapter.records_multiset(m2) and adapter.records_multiset(m1) != adapter.records_multiset(m2):
                V.append(viol("C03.roundtrip_message_differs", {"kind": k, "sent": repr(ph["permuted"])[:300], "second": repr(m2)[:300], "reordered": True}, kind=k, gen=gen))
                break
        elif m1 != m2:
            V.append(viol("C03.roundtrip_message_differs", {"kind": k, "first": repr(m1)[:300], "second": repr(m2)[:300]}, kind=k, gen=gen))
            break
        if getattr(h2, "message_length", None) != len(fr2["data"]) or getattr(h2, "message_id", None) != fr2["type"] or getattr(h2, "packet_id", None) != fr2["pid"]:
            V.append(viol("C03.roundtrip_header_differs", {"kind": k, "header": repr(h2)}, kind=k))
            break
    if len(w.net.links) != 1 and not V:
        V.append(viol("C03.connection_reset", {"links": len(w.net.links)}))
    if w.final.get("exceptions"):
        V.append(viol("C03.exception", {"contexts": w.final["exceptions"][:2]}))
    res = common.result(w, V, nontrivial=True, probes=probes, evals=max(1, evals))
    res["sets"] = {"distinct_kind_payload_pairs": sorted(repr(x) for x in sets)}
    return res


def _has_zero_temp(r) -> bool:
    if isinstance(r, dict):
        return any((k == "temp" and v == 0.0) or _has_zero_temp(v) for k, v in r.items())
    if isinstance(r, list):
        return any(_has_zero_temp(v) for v in r)
    return False


_IGNORE = {"pad", "b1hi", "keep0", "why", "rlen"}


def _by_id(r):
    """A reading with every record list sorted by the record's own number (record order carries no meaning)."""
    if isinstance(r, dict):
        return {k: _by_id(v) for k, v in r.items()}
    if isinstance(r, list):
        items = [_by_id(x) for x in r]
        if items and all(isinstance(x, dict) for x in items):
            for key in ("ac", "zone", "group"):
                if all(key in x for x in items):
                    return sorted(items, key=lambda x: x[key])
        return items
    return r


def _same_reading(gen: int, a, b) -> bool:
    """Semantic equality of two reference readings."""
    if isinstance(a, dict) and isinstance(b, dict):
        if a.get("kind") in ("group_control", "zone_control", "ac_control") and a.get("kind") == b.get("kind"):
            return readcmp._control_key(gen, a, True) == readcmp._control_key(gen, b, True)
        keys = (set(a) | set(b)) - _IGNORE
        if a.get("sensor") is False and b.get("sensor") is False and ("group" in a or "zone" in a):
            keys -= {"setpoint", "temp"}  # a zone without sensor: these bits carry no meaning
        for k in keys:
            if k not in a or k not in b:
                return False
            if not _same_reading(gen, a[k], b[k]):
                return False
        # a zone without sensor: the set-point / temperature bits carry no meaning
        return True
    if isinstance(a, list) and isinstance(b, list):
        return len(a) == len(b) and all(_same_reading(gen, x, y) for x, y in zip(a, b))
    if isinstance(a, float) or isinstance(b, float):
        try:
            return abs(a - b) < 1e-9
        except TypeError:
            return a == b
    return a == b


LEVEL_TEXT = (
    "Seeded relay of reference-encoded frames of all 36 message / request kinds through the real receive path, the real send "
    "path and the real receive path again: framing, declared vs produced lengths (wrapper and sub-message), payload meaning and "
    "object equality are checked with the independent reference framing and decoders. Sampled evidence over the input space."
)
LEVEL_NOTE = "Input-quantified property: the simulator is the vehicle. Trusts ref/ encoders/decoders; zones without sensor are generated with canonical (zero / 0xFF) set-point and temperature fields."
TECHNIQUE = "deterministic simulation as vehicle: seeded relay of every message kind through real receive -> real send -> real receive, reference framing/decoder oracle"
