"""Console-side histories (state changes published as status frames) shared by C10/C12/C14/C19."""

from __future__ import annotations

from harness import gen as G
from ref import wire4, wire5


def console_steps(rng, gen: int, inst: dict, n: int, t0: float, spacing: float = 0.5, kinds=None) -> list[dict]:
    acs = [a["ac"] for a in inst["acs"]]
    zones = [z["zone"] for z in inst["zones"]]
    tl = []
    t = t0
    kinds = kinds or ["ac", "ac", "zone", "zone", "timer", "repeat", "errtext", "version", "unknown_entity", "unexposed", "multi"]
    for _ in range(n):
        k = rng.choice(kinds)
        if k == "zone" and not zones:
            k = "ac"
        if k == "ac_error":
            # error code toggles: episodes begin and end
            ac = rng.choice(acs)
            tl.append({"at": t, "op": "console.set", "entity": ["ac", ac], "fields": {"error": rng.choice([0, 0, 7, 0x1234])}, "only": rng.random() < 0.7})
        elif k == "ac":
            full = G.ac_state(rng, gen)
            fields = full if rng.random() < 0.4 else {f: full[f] for f in rng.sample(sorted(full), rng.randint(1, 3))}
            tl.append({"at": t, "op": "console.set", "entity": ["ac", rng.choice(acs)], "fields": fields, "only": rng.random() < 0.7})
        elif k == "zone":
            full = G.zone_state(rng, gen)
            fields = full if rng.random() < 0.4 else {f: full[f] for f in rng.sample(sorted(full), rng.randint(1, 3))}
            if "sensor" in fields or "temp" in fields or "setpoint" in fields:
                fields = dict(fields, sensor=full["sensor"], temp=full["temp"], setpoint=full["setpoint"])
            tl.append({"at": t, "op": "console.set", "entity": ["zone", rng.choice(zones)], "fields": fields, "only": rng.random() < 0.7})
        elif k == "timer" and spacing >= 0.5 and rng.random() < 0.35:
            # armed, cleared with the time left in place, armed again at the same time (what a user does when re-arming)
            ac = rng.choice(acs)
            which = rng.choice(["on", "off"])
            tm = dict(G.timer(rng), disabled=False)
            only = rng.random() < 0.5
            tl.append({"at": t, "op": "console.set", "entity": ["timer", ac], "fields": {which: dict(tm)}, "only": only})
            tl.append({"at": t + spacing / 8, "op": "console.set", "entity": ["timer", ac], "fields": {which: dict(tm, disabled=True)}, "only": only})
            tl.append({"at": t + spacing / 4, "op": "console.set", "entity": ["timer", ac], "fields": {which: dict(tm)}, "only": only})
        elif k == "timer":
            tl.append({"at": t, "op": "console.set", "entity": ["timer", rng.choice(acs)], "fields": {rng.choice(["on", "off"]): G.timer(rng)}, "only": rng.random() < 0.5})
        elif k == "repeat":
            what = rng.choice(["ac", "zone", "timer", "version"] if zones else ["ac", "timer", "version"])
            ids = None
            if what == "ac" and rng.random() < 0.5:
                ids = [rng.choice(acs)]
            if what == "zone" and rng.random() < 0.5:
                ids = sorted(rng.sample(zones, rng.randint(1, len(zones))))
            tl.append({"at": t, "op": "console.publish", "what": what, "ids": ids, "repeat": True})
        elif k == "errtext":
            tl.append({"at": t, "op": "console.errtext", "ac": rng.choice(acs), "text": rng.choice([None, "ER: FFFE", "E5", "Störung", "x" * 30]), "publish": rng.random() < 0.6})
        elif k == "version":
            sep = "|" if gen == 4 else ","
            vs = rng.choice([["1.3.3"], ["1.3.4", "1.3.3"], ["2.0.0"]])
            tl.append({"at": t, "op": "console.version", "versions": [v.replace(sep, ".") for v in vs], "update": rng.random() < 0.5})
        elif k == "unknown_entity":
            tl.append({"at": t, "op": "console.raw", "hex": _foreign_entity_frame(rng, gen, acs, zones).hex()})
        elif k == "unexposed":
            if gen == 5 and rng.random() < 0.5:
                tl.append({"at": t, "op": "console.set", "entity": ["ac", rng.choice(acs)], "fields": {"turbo": rng.random() < 0.5}, "only": True, "unexposed": True})
            else:
                tl.append({"at": t, "op": "console.set", "entity": ["ac", rng.choice(acs)], "fields": {"timer": rng.random() < 0.5}, "only": True, "unexposed": True})
        elif k == "multi" and zones:
            # several zones change, one frame; sometimes in any record order and with records of zones / ACs the
            # installation does not contain in front of, between or behind them
            ids = sorted(rng.sample(zones, rng.randint(1, len(zones))))
            for z in ids:
                full = G.zone_state(rng, gen)
                tl.append({"at": t, "op": "console.set", "entity": ["zone", z], "fields": {"power": full["power"], "percent": full["percent"]}, "publish": False})
            step = {"at": t, "op": "console.publish", "what": "zone", "ids": ids}
            other = [z for z in range(16) if z not in zones]
            if other and rng.random() < 0.5:
                extra = rng.sample(other, rng.randint(1, min(2, len(other))))
                step["foreign"] = {"zone": {str(z): G.zone_state(rng, gen) for z in extra}}
                ids = ids + extra
                rng.shuffle(ids)
                step["ids"] = ids
            tl.append(step)
            if rng.random() < 0.3 and spacing >= 0.25:
                # one frame per instant (C12 attributes notifications to frames by instant)
                t2 = t + spacing / 4
                other_ac = [a for a in range(4 if gen == 4 else 8) if a not in acs]
                if other_ac:
                    a_ids = list(acs)
                    extra = rng.sample(other_ac, 1)
                    for a in a_ids:
                        tl.append({"at": t2, "op": "console.set", "entity": ["ac", a], "fields": {"setpoint": G.ac_state(rng, gen)["setpoint"]}, "publish": False})
                    a_ids = a_ids + extra
                    rng.shuffle(a_ids)
                    tl.append({"at": t2, "op": "console.publish", "what": "ac", "ids": a_ids, "foreign": {"ac": {str(a): G.ac_state(rng, gen) for a in extra}}})
        t += spacing
    return tl


def _foreign_entity_frame(rng, gen: int, acs, zones) -> bytes:
    if gen == 4:
        other_ac = [a for a in range(4) if a not in acs]
        other_z = [z for z in range(16) if z not in zones]
        if other_ac and rng.random() < 0.5:
            return wire4.f_status(0x66, wire4.T_AC_STATUS, wire4.enc_ac_status_record(dict(G.ac_state(rng, 4), ac=rng.choice(other_ac))))
        if other_z:
            return wire4.f_status(0x66, wire4.T_GROUP_STATUS, wire4.enc_group_status_record(dict(G.zone_state(rng, 4), group=rng.choice(other_z))))
        return wire4.f_ext(0x66, wire4.X_ERR, bytes((3 if 3 not in acs else 0, 2)) + b"E9") if 3 not in acs else wire4.f_ext(0x66, 0xFF77, b"")
    other_ac = [a for a in range(16) if a not in acs]
    other_z = [z for z in range(16) if z not in zones]
    if rng.random() < 0.5 or not other_z:
        return wire5.f_cs(0x66, wire5.S_AC_STATUS, [wire5.enc_ac_status_record(dict(G.ac_state(rng, 5), ac=rng.choice(other_ac)))])
    return wire5.f_cs(0x66, wire5.S_ZONE_STATUS, [wire5.enc_zone_status_record(dict(G.zone_state(rng, 5), zone=rng.choice(other_z)))])
