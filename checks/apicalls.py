"""Shared engine of C04 / C11 / C19: public control calls on an initialised client, judged call by call."""

from __future__ import annotations

from harness import gen as G
from harness.world import World
from ref import apispec
from ref import model as refmodel

from . import common

AC_POWERS = ["TOGGLE", "TURN_OFF", "TURN_ON", "SET_TO_AWAY", "SET_TO_SLEEP"]
MODES = ["AUTO", "HEAT", "DRY", "FAN", "COOL"]
FANS = ["AUTO", "QUIET", "LOW", "MEDIUM", "HIGH", "POWERFUL", "TURBO", "INTELLIGENT_AUTO"]
ZONE_POWERS = ["OFF", "ON", "TURBO"]


def temperature(rng, flavour: str) -> float:
    r = rng.random()
    if r < 0.5:
        return rng.randint(5 * 20, 40 * 20) / 20.0  # 0.05 grid, across and beyond the limits
    if r < 0.7:
        return float(rng.randint(5, 40))
    if r < 0.85:
        return rng.randint(100, 350) / 10.0 + rng.choice([0.0, 0.04, 0.049, 0.051, 0.06, -0.04])
    return rng.choice([-5.0, 0.0, 9.9, 35.0, 35.5, 36.0, 63.0, 64.0, 100.0]) if flavour == "c11" else rng.choice([10.0, 16.0, 25.5, 30.0, 35.0])


def one_call(rng, gen: int, inst: dict, flavour: str) -> dict:
    acs = [a["ac"] for a in inst["acs"]]
    zones = [z["zone"] for z in inst["zones"]]
    kinds = ["ac_power", "ac_mode", "ac_fan", "ac_temp", "ac_timer_delta", "ac_timer_time", "ac_timer_clear", "update"]
    if zones:
        kinds += ["zone_power", "zone_temp", "zone_damper"] * 2
    k = rng.choice(kinds)
    if k == "ac_power":
        return {"target": ["ac", rng.choice(acs)], "call": "set_power", "args": {"ac_power": rng.choice(AC_POWERS)}}
    if k == "ac_mode":
        a = {"mode": rng.choice(MODES)}
        if rng.random() < 0.4:
            a["power_on"] = rng.random() < 0.7
        return {"target": ["ac", rng.choice(acs)], "call": "set_mode", "args": a}
    if k == "ac_fan":
        return {"target": ["ac", rng.choice(acs)], "call": "set_fan_speed", "args": {"fan": rng.choice(FANS)}}
    if k == "ac_temp":
        return {"target": ["ac", rng.choice(acs)], "call": "set_target_temperature", "args": {"temperature": temperature(rng, flavour)}}
    if k == "ac_timer_delta":
        secs = rng.choice([0, 59, 60, 3600, 3720, 86399, 86400, 90000, rng.randint(0, 200000), 32 * 3600 + 59 * 60])
        return {"target": ["ac", rng.choice(acs)], "call": "set_quick_timer", "args": {"timer_type": rng.choice(["ON_TIMER", "OFF_TIMER"]), "value": {"delta_s": secs}}}
    if k == "ac_timer_time":
        return {"target": ["ac", rng.choice(acs)], "call": "set_quick_timer",
                "args": {"timer_type": rng.choice(["ON_TIMER", "OFF_TIMER"]), "value": {"time": [rng.randint(0, 23), rng.randint(0, 59)]}}}
    if k == "ac_timer_clear":
        return {"target": ["ac", rng.choice(acs)], "call": "clear_quick_timer", "args": {"timer_type": rng.choice(["ON_TIMER", "OFF_TIMER"])}}
    if k == "update":
        return {"target": ["at"], "call": "check_for_updates", "args": {}}
    if k == "zone_power":
        return {"target": ["zone", rng.choice(zones)], "call": "set_power", "args": {"zone_power": rng.choice(ZONE_POWERS)}}
    if k == "zone_temp":
        return {"target": ["zone", rng.choice(zones)], "call": "set_target_temperature", "args": {"temperature": temperature(rng, flavour)}}
    p = rng.randint(0, 100) if flavour == "c04" or rng.random() < 0.6 else rng.choice([-5, -1, 101, 105, 0, 100])
    return {"target": ["zone", rng.choice(zones)], "call": "set_damper_percentage", "args": {"percent": p}}


def installation(rng, gen: int, flavour: str) -> dict:
    inst = G.installation(rng, gen, allow_zero_zones=False, max_zones=16 if rng.random() < 0.3 else 6)
    if gen == 4 and rng.random() < 0.5:
        # AC numbers anywhere in 0..3 / zone numbers anywhere in 0..15 are already drawn by G.installation
        pass
    for a in inst["acs"]:
        if flavour == "c11":
            a["modes"] = G.subset(rng, a["modes"] or ["auto"], p_all=0.15) if rng.random() < 0.9 else []
            a["fans"] = G.subset(rng, a["fans"] or ["auto"], p_all=0.15)
        st = a.setdefault("state", {})
        st["error"] = 0  # keep error-info traffic out of the call windows
    return inst


def generate(rng, flavour: str, n_calls=None) -> dict:
    gen = rng.choice([4, 5])
    inst = installation(rng, gen, flavour)
    knobs = {"latency": rng.choice([0.0, G.TICK, 2.0**-7]), "first_packet_id": rng.choice([0, 250, rng.randint(0, 255)]), "seg": {"mode": "whole"}}
    n = n_calls or rng.choice([4, 8, 16, 30])
    tl = [{"at": 0.0, "op": "user.init"}]
    t = 6.0
    acs = [a["ac"] for a in inst["acs"]]
    zones = [z["zone"] for z in inst["zones"]]
    for _ in range(n):
        if rng.random() < 0.25:
            # the console state drifts between calls (mode for AT5 limits, timers, sensors, turbo support)
            r = rng.random()
            if r < 0.4:
                f = {"mode": rng.choice(["auto", "heat", "dry", "fan", "cool", "auto_heat", "auto_cool"])}
                if rng.random() < 0.35:
                    # the mode changes while the unit reports an error (or the error comes and goes with it): the limits still
                    # follow the mode (the client's question about the error text is over long before the next call)
                    f["error"] = rng.choice([0, 5, 0x22, 0x1234])
                tl.append({"at": t, "op": "console.set", "entity": ["ac", rng.choice(acs)], "fields": f})
            elif r < 0.7:
                tl.append({"at": t, "op": "console.set", "entity": ["timer", rng.choice(acs)], "fields": {rng.choice(["on", "off"]): G.timer(rng)}, "only": False})
            elif zones:
                zs = G.zone_state(rng, gen)
                tl.append({"at": t, "op": "console.set", "entity": ["zone", rng.choice(zones)],
                           "fields": {"sensor": zs["sensor"], "temp": zs["temp"], "setpoint": zs["setpoint"], **({"turbo_support": zs["turbo_support"]} if gen == 4 else {})}})
            t += 0.5
        c = one_call(rng, gen, inst, flavour)
        tl.append(dict(c, at=t, op="user.api"))
        tl.append({"at": t + 0.375, "op": "user.snapshot", "label": "after_call"})
        t += 0.5
    if rng.random() < 0.3:
        # a block of calls made while the link is down: the frames are produced later, when the connection is back, and each
        # must still say what its own call asked for (several calls on the same unit are the interesting case)
        t += 0.5
        tl.append({"at": t - G.EPS, "op": "net.fates", "fates": [{"kind": "accept", "latency": rng.choice([0.5, 1.0])}]})
        tl.append({"at": t, "op": "net.rst"})
        ac = rng.choice(acs)
        for j in range(rng.choice([2, 3, 4])):
            c = one_call(rng, gen, inst, flavour)
            for _ in range(20):
                if c["call"] != "check_for_updates" and (rng.random() < 0.3 or c["target"] == ["ac", ac]):
                    break
                c = one_call(rng, gen, inst, flavour)
            if c["call"] == "check_for_updates":
                continue
            tl.append(dict(c, at=t + 0.0625 * (j + 1), op="user.api", buffered=True))
        t += 2.0
    return {"gen": gen, "mode": "api", "installation": inst, "knobs": knobs, "timeline": tl, "end": t + 1.0}


def _safe(pred, reading) -> bool:
    try:
        return bool(pred(reading))
    except (KeyError, IndexError, TypeError):
        return False


def evaluate(sc: dict):
    """Run the scenario; return (world, [verdict per API call])."""
    gen = sc["gen"]
    w = World(sc).run()
    inst = sc["installation"]
    init = next((c for c in w.calls if c["op"] == "user.init"), None)
    if init is None or init["result"] is not True:
        return w, None
    wire = common.wire(gen)
    frames = common.client_frames(w)
    calls = [c for c in w.calls if c["op"] == "user.api" and c["seq_call"] is not None]
    m = refmodel.Model(gen, inst, common.META)
    tx = w.console.tx
    txi = 0
    out = []
    snaps = [s for (_t, lbl, s) in w.snapshots if lbl == "after_call"]
    for i, c in enumerate(calls):
        while txi < len(tx) and tx[txi]["seq"] < c["seq_call"]:
            frs, verdict, _ = wire.parse_stream(tx[txi]["raw"])
            if verdict == "clean":
                for fr in frs:
                    m.feed(wire.read(fr))
            txi += 1
        st = c["step"]
        tgt = st["target"]
        ctx = {}
        reachable = True
        if tgt[0] == "ac":
            a = m.acs.get(tgt[1])
            status = m.ac_status.get(tgt[1])
            if a is None or status is None:
                reachable = False
            else:
                if gen == 5:
                    union = (min(a["min_heat"], a["min_cool"]), max(a["max_heat"], a["max_cool"]))
                    heat = (a["min_heat"], a["max_heat"])
                    cool = (a["min_cool"], a["max_cool"])
                    lims = {"heat": [heat], "cool": [cool], "auto_heat": [heat, union], "auto_cool": [cool, union]}.get(status["mode"], [union])
                else:
                    lims = [(a["min_sp"], a["max_sp"])]
                if st["call"] == "set_target_temperature":
                    # "clamped into the current [min, max]": the limits the object itself advertised at the moment of the call
                    # decide, provided they are among the admissible readings (if not, C10 reports the getter)
                    adv = next((e for e in w.trace.events[c["seq_call"] + 1: c["seq_call"] + 3] if e[2] == "user.advertised_limits"), None)
                    if adv is not None and any(abs(adv[3]["lo"] - lo) < 1e-9 and abs(adv[3]["hi"] - hi) < 1e-9 for (lo, hi) in lims):
                        lims = [(lo, hi) for (lo, hi) in lims if abs(adv[3]["lo"] - lo) < 1e-9 and abs(adv[3]["hi"] - hi) < 1e-9]
                ctx = {"ac": a, "status": status, "timer": m.timer.get(tgt[1]), "limits": lims}
        elif tgt[0] == "zone":
            z = m.zone_status.get(tgt[1])
            if z is None or tgt[1] not in {zz for zs in m.ac_zones.values() for zz in zs}:
                reachable = False
            else:
                ctx = {"zone": z}
        nxt = calls[i + 1]["seq_call"] if i + 1 < len(calls) else 10**12
        window = [f for f in frames if c["seq_call"] < f["seq"] < nxt]
        if st.get("buffered"):
            window = []  # written later, on the next connection: attributed below
        cmd = [f for f in window if not f["reading"]["kind"].endswith("_request") or (st["call"] == "check_for_updates" and f["reading"]["kind"] == "version_request")]
        exc = c["exc"]
        v = {"call": st["call"], "target": tgt, "args": st["args"], "exc": type(exc).__name__ if exc is not None else None,
             "frames": cmd, "reachable": reachable, "returned": c["t_ret"] is not None, "t": c["t_call"], "expect": None, "snap_diffs": None,
             "buffered": bool(st.get("buffered")), "seq_call": c["seq_call"]}
        if reachable:
            exp = apispec.expect_api(gen, tgt, st["call"], st["args"], ctx)
            v["expect"] = "raise" if exp.get("raise") else "accept" if "accept" in exp else "skip:" + exp.get("skip", "")
            v["inexpressible"] = bool(exp.get("inexpressible"))
            if "accept" in exp:
                v["meaning_ok"] = [any(_safe(p, f["reading"]) for p in exp["accept"]) for f in cmd]
                v["policy"] = exp.get("policy")
                v["_accept"] = exp["accept"]
        out.append(v)
    # calls made while the link was down: their frames follow, in acceptance order, once the connection is back
    held = [v for v in out if v.get("buffered")]
    if held:
        last = max(v["seq_call"] for v in held)
        later = [f for f in frames if f["seq"] > last and not f["reading"]["kind"].endswith("_request")]
        senders = [v for v in held if v["exc"] is None and v["returned"] and v["reachable"] and v["expect"] == "accept"]
        clean = all(v["reachable"] and (v["expect"] in ("accept", "raise")) and ((v["exc"] is None) == (v["expect"] == "accept")) for v in held)
        if clean and len(later) == len(senders):
            for v, f in zip(senders, later):
                v["frames"] = [f]
                v["meaning_ok"] = [any(_safe(p, f["reading"]) for p in v["_accept"])]
        else:
            for v in held:
                v["expect"] = "skip:buffered frames not attributable one to one"
    for v in out:
        v.pop("_accept", None)
    # closed loop: after the console's answers the getters equal the console's reports
    m2 = refmodel.Model(gen, inst, common.META)
    txi = 0
    for snap in snaps:
        while txi < len(tx) and tx[txi]["seq"] < snap["_seq"]:
            frs, verdict, _ = wire.parse_stream(tx[txi]["raw"])
            if verdict == "clean":
                for fr in frs:
                    m2.feed(wire.read(fr))
            txi += 1
        d = refmodel.compare(m2.expected(), snap)
        if d:
            for v in out:
                if v["t"] is not None and v["t"] < snap.get("_t", 1e18):
                    pass
            out.append({"closed_loop_diffs": d[:4]})
            break
    return w, out
