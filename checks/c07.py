"""C07 - The connection heals itself, never wedges, and stays single."""

from __future__ import annotations

from harness import gen as G
from harness.world import World
from ref import apispec
from ref import console as refconsole

from . import common, sendq
from .common import viol

ID = "C07"
TITLE = "The connection heals itself, never wedges, and stays single"
LEVEL = "exploration"
RULE = (
    "seeded fault scripts of depth <= 4 (quick) / <= 8 (thorough) over {refused / unreachable / timed-out connect, accept "
    "with latency, peer FIN, peer RST, garbage, bad CRC, undecodable valid frame, truncated frame + FIN, write error on the "
    "n-th write, unencodable queued message (struct.error / ValueError / no encoder), raising subscriber} with gaps drawn from "
    "{0, eps, latency, 0.5, 2-eps, 2, 2+eps, connect latency} so that faults collide with the reconnect of the previous one and "
    "with the 2 s retry timer; socket level and initialised API level (heartbeat running); after the script the network "
    "accepts and a probe status frame + probe command must get through; non-trivial = at least two faults fired; distinct = trace shape"
)
COMPONENTS = common.COMPONENTS_API
ASSUMPTIONS = [
    "recovery bound after the last fault: remaining connect latencies + 2 s per failing attempt + 3 s",
    "injected garbage is of the promptly-rejectable kind (>= one header long, wrong prefix); input that makes the client wait for a declared length is C06/C17's subject",
    "'holds an open connection' = the simulated socket was accepted and the client has not yet called close()/abort() on it nor lost it",
]
PROBES = ["c07.slow_disconnect_notification", "c07.connection_made_inside_slow_reset", "c07.loop_passes_take_time", "c07.write_error_inside_subscriber", "c07.slow_close", "c07.connect_during_slow_close", "c07.frame_then_fin", "c07.fin_at_accept", "c07.double_reset_same_instant", "c07.fault_during_reconnect", "c07.fault_at_retry_timer", "c07.unencodable_while_down",
          "c07.raising_subscriber", "c07.api_class", "c07.probe_delivered"]


def budget(tier: str) -> int:
    return 12000 if tier == "quick" else 1_000_000


FAULTS = ["refuse", "slow_accept", "fin", "rst", "garbage", "bad_crc", "undecodable", "truncated", "write_error", "reply_write_error", "unencodable", "send",
          "frame_then_fin", "fin_at_accept", "drain_error_at_connect", "slow_close", "fin_with_write_error"]


def _probe_status(gen: int, marker: int) -> bytes:
    """A well-formed status frame with a recognisable value."""
    if gen == 4:
        from ref import wire4 as w

        rec = w.enc_ac_status_record({"ac": 0, "power": "on", "mode": "cool", "fan": "low", "spill": False, "timer": False,
                                      "setpoint": 20 + marker % 10, "temp": 21.0, "error": 0})
        return w.f_status(0x70 + marker % 8, w.T_AC_STATUS, rec)
    from ref import wire5 as w

    rec = w.enc_ac_status_record({"ac": 0, "power": "on", "mode": "cool", "fan": "low", "setpoint": 20.0 + marker % 10, "turbo": False,
                                  "bypass": False, "spill": False, "timer": False, "temp": 21.0, "error": 0})
    return w.f_cs(0x70 + marker % 8, w.S_AC_STATUS, [rec])


def generate(rng, index: int, tier: str) -> dict:
    gen = rng.choice([4, 5])
    api = rng.random() < 0.3
    slow_conn_sub = False
    work_down = 0.0
    depth = rng.randint(1, 4 if tier == "quick" else 8)
    lat = rng.choice([0.0, G.TICK, 2.0**-7, 2.0**-5])
    knobs = {"latency": lat, "first_packet_id": rng.choice([0, 254]), "seg": rng.choice([{"mode": "whole"}, {"mode": "random", "seed": rng.getrandbits(16), "max": 3}])}
    w = common.wire(gen)
    tl = []
    fates = []
    if api:
        tl.append({"at": 0.0, "op": "user.init"})
        t = 6.0
        fates.append({"kind": "accept", "latency": 0.0})
    else:
        tl.append({"at": 0.0, "op": "user.open"})
        if rng.random() < 0.3:
            tl.append({"at": 0.0, "op": "user.sock_subscribe", "name": "bad", "raises": True, "sub_yields": rng.choice([0, 1])})
        # a message subscriber that answers what it receives with a request of its own, from inside the callback (what the API
        # classes do for their handshake chain and for error descriptions)
        if rng.random() < 0.25:
            # a connection subscriber that takes its time over "connected" (and may fail at the end): the post-connect phase
            # of every connection then lasts that long
            tl.append({"at": 0.0, "op": "user.sock_conn_subscribe", "work": rng.choice([0.125, 0.5, 0.5, 2.5]), "raises": rng.random() < 0.4})
            slow_conn_sub = True
            if rng.random() < 0.5:
                # ... and over "disconnected" as well: every reset of the connection then stays that long in its notification
                # fan-out, not connected, before it starts the reconnection - faults and timers land inside that window
                work_down = rng.choice([0.5, 1.5, 1.5, 2.5])
                tl[-1]["work_down"] = work_down
                tl[-1]["work"] = rng.choice([0.0, 0.0, 0.125])
        if rng.random() < 0.5:
            tl.append({"at": 0.0, "op": "user.sock_subscribe", "name": "replier", "sub_yields": rng.choice([0, 0, 1]),
                       "after_yields": rng.choice([0, 0, 3, 12, 40]), "after_sleep": rng.choice([0.0, 0.0, 2.0**-6, 0.25, 1.5]),
                       "replies": sendq.distinct_messages(rng, gen, 40)[24:]})
        n0 = rng.choice([0, 0, 1, 2])
        fates += [{"kind": rng.choice(["refuse", "unreachable", "timeout"]), "latency": rng.choice([0.0, 0.125])} for _ in range(n0)]
        acc = rng.choice([0.0, 0.125, 1.0])
        fates.append({"kind": "accept", "latency": acc})
        t = sum(f["latency"] + 2.0 for f in fates[:-1]) + acc + rng.choice([0.0, 0.25, 1.0])
    msgs = sendq.distinct_messages(rng, gen, 24)
    mi = 0
    recon_lat = 0.0
    stale_timer = None  # instant at which a delayed connect scheduled by an earlier recovery path fires
    for d in range(depth):
        kind = rng.choice(FAULTS)
        if work_down and stale_timer is None and rng.random() < 0.4:
            kind = "drain_error_at_connect"
        gap = rng.choice([0.0, G.EPS, lat, lat + G.EPS, 0.5, 2.0 - G.EPS, 2.0, 2.0 + G.EPS, recon_lat, recon_lat + lat, 3.0])
        if stale_timer is not None and work_down and stale_timer - 1.0 >= t and rng.random() < 0.7:
            # the peer closes shortly before that delayed connect fires: the reset is still in its (slow) notification fan-out
            # when the timer brings up another connection, and the peer closes that one too before the first reset is over
            t1 = stale_timer - rng.choice([0.25, 0.5, 1.0])
            t2 = stale_timer + rng.choice([0.125, 0.25, 0.5, 1.0])
            tl.append({"at": t1 - G.EPS, "op": "net.fates", "fates": [{"kind": "accept", "latency": 0.0}] * 3})
            tl.append({"at": t1, "op": "net.fin"})
            tl.append({"at": t2, "op": rng.choice(["net.fin", "net.fin", "net.rst"])})
            t = t2 + work_down
            stale_timer = None
            recon_lat = 0.0
            continue
        if stale_timer is not None and rng.random() < 0.6:
            # a disconnect that is still in progress when that delayed connect fires
            kind = "slow_close"
            gap = max(0.0, stale_timer - t - rng.choice([0.25, 0.125, 0.5]))
        t += gap
        # how the reconnect triggered by this fault will fare
        r = rng.random()
        if r < 0.5:
            recon = [{"kind": "accept", "latency": rng.choice([0.0, 0.0, 0.125, 1.0])}]
        elif r < 0.8:
            recon = [{"kind": rng.choice(["refuse", "unreachable", "timeout"]), "latency": rng.choice([0.0, 0.125])},
                     {"kind": "accept", "latency": rng.choice([0.0, 0.125])}]
        else:
            recon = [{"kind": "refuse", "latency": 0.0}, {"kind": "refuse", "latency": 0.5}, {"kind": "accept", "latency": 0.0}]
        recon_lat = recon[0]["latency"]
        if kind == "refuse":
            tl.append({"at": t, "op": "net.fates", "fates": recon})
            tl.append({"at": t, "op": "net.rst"})
        elif kind == "slow_accept":
            tl.append({"at": t, "op": "net.fates", "fates": [{"kind": "accept", "latency": rng.choice([1.0, 2.0, 2.0 - G.EPS, 4.0, 4.75, 4.9375, 5.0 - G.EPS, 5.5, 9.75])}]})
            tl.append({"at": t, "op": rng.choice(["net.fin", "net.rst"])})
        elif kind in ("fin", "rst"):
            tl.append({"at": t, "op": "net.fates", "fates": recon})
            tl.append({"at": t, "op": "net." + kind})
        elif kind == "garbage":
            n = rng.randint(w.FULL_HEADER_LEN if gen == 5 else w.HEADER_LEN, 60)
            data = bytes([rng.choice([0x00, 0x54, 0x56, 0xAA, 0xFF])] + [rng.randrange(256) for _ in range(n - 1)])
            tl.append({"at": t, "op": "net.fates", "fates": recon})
            tl.append({"at": t, "op": "console.raw", "hex": data.hex()})
        elif kind == "bad_crc":
            fr = bytearray(_probe_status(gen, rng.randint(0, 7)))
            fr[-1 - rng.randint(0, 1)] ^= 1 << rng.randint(0, 7)
            tl.append({"at": t, "op": "net.fates", "fates": recon})
            tl.append({"at": t, "op": "console.raw", "hex": bytes(fr).hex()})
        elif kind == "undecodable":
            v = rng.choice(["length", "enum", "utf8", "short"])
            if gen == 4:
                if v == "length":
                    raw = w.f_status(1, w.T_AC_STATUS, bytes(rng.randrange(256) for _ in range(rng.choice([1, 7, 9]))))
                elif v == "enum":
                    raw = w.f_status(1, w.T_AC_STATUS, bytes((0x40, rng.choice([0xF0, 0x5F, 0xA7]), 0x18, 0, 0x58, 0xC0, 0, 0)))
                elif v == "utf8":
                    raw = w.f_ext(1, w.X_NAMES, bytes((0, 0xFF, 0xFE, 0x41, 0, 0, 0, 0, 0)))
                else:
                    raw = w.f_ext(1, w.X_VERSION, bytes((0, 9, 0x31)))
            else:
                if v == "length":
                    raw = w.frame(w.ADDR_CLIENT, w.ADDR_CONSOLE, 1, w.T_CS, w.sub_header(w.S_AC_STATUS, 0, 4, 1) + b"\x00\x00\x00\x00")
                elif v == "enum":
                    raw = w.f_cs(1, w.S_AC_STATUS, [bytes((0x60, rng.choice([0xF0, 0x5F, 0x17]), 0x64, 0xC0, 0x02, 0xE4, 0, 0))])
                elif v == "utf8":
                    raw = w.f_ext(1, w.X_NAMES, bytes((0, 3, 0xFF, 0xFE, 0x41)))
                else:
                    raw = w.frame(w.ADDR_CLIENT, w.ADDR_CONSOLE, 1, w.T_CS, w.sub_header(w.S_ZONE_STATUS, 0, 8, 3) + bytes(8))
            tl.append({"at": t, "op": "net.fates", "fates": recon})
            tl.append({"at": t, "op": "console.raw", "hex": raw.hex()})
        elif kind == "truncated":
            fr = _probe_status(gen, 3)
            cut = rng.randint(1, len(fr) - 1)
            tl.append({"at": t, "op": "net.fates", "fates": recon})
            tl.append({"at": t, "op": "console.raw", "hex": fr[:cut].hex()})
            tl.append({"at": t + rng.choice([0.0, lat, 0.125]), "op": "net.fin"})
        elif kind == "frame_then_fin":
            # a valid frame with the peer's FIN right behind it: the EOF is fed while the client is still
            # delivering the frame to its subscribers
            tl.append({"at": t, "op": "net.fates", "fates": recon})
            tl.append({"at": t, "op": "console.raw", "hex": _probe_status(gen, rng.randint(0, 7)).hex()})
            tl.append({"at": t + rng.choice([0.0, 0.0, G.EPS]), "op": "net.fin"})
        elif kind == "fin_at_accept":
            # the console accepts and closes at once: EOF arrives during the connected notification fan-out
            tl.append({"at": t, "op": "net.fates", "fates": recon})
            tl.append({"at": t, "op": "net.fin_next_accept", "delay": rng.choice([0.0, 0.0, G.EPS, lat])})
            tl.append({"at": t, "op": rng.choice(["net.fin", "net.rst"])})
        elif kind == "drain_error_at_connect":
            # a command waits for the link; the connection comes up and the very first write on it fails: the error is met by
            # the drain inside the connect path, whose caller also falls back to a delayed (2 s) connect
            acc_l = rng.choice([0.125, 0.5, 1.0])
            # (the reconnect that follows the failed drain sometimes takes exactly as long as the delayed retry armed by the
            # same failure: the new connection comes up in the instant that stale timer fires)
            l2 = rng.choice([0.0, 0.125, 2.0, 2.0 - G.EPS, 2.0 + G.EPS])
            if work_down:
                l2 = rng.choice([0.0, 0.125])
            elif rng.random() < 0.5:
                # loop passes take (a little) time in this run: the stale timer may then fire in the middle of what the new
                # connection's establishment started, a few passes after it
                knobs["iter_cost"] = 2.0**-16
                l2 = 2.0 + rng.randint(-8, 3) * 2.0**-16
            tl.append({"at": t, "op": "net.fates", "fates": [{"kind": "accept", "latency": acc_l}, {"kind": "accept", "latency": l2}]})
            tl.append({"at": t, "op": "net.rst"})
            tl.append({"at": t + lat + G.EPS, "op": "net.fail_write", "nth": 1, "err": rng.choice(["EPIPE", "ECONNRESET"])})
            if api:
                tl.append({"at": t + lat + 2 * G.EPS, "op": "user.api", "target": ["ac", 0], "call": "set_fan_speed", "args": {"fan": rng.choice(["LOW", "HIGH", "AUTO", "MEDIUM"])}})
            else:
                tl.append({"at": t + lat + 2 * G.EPS, "op": "user.send", "msg": msgs[mi], "policy": "idem"})
                mi += 1
            # (with a slow "disconnected" subscriber the reset that follows the RST and the failed drain's own reset each stay
            # that long in their fan-out; the delayed retry is armed when the second one is over)
            stale_timer = t + lat + acc_l + 2.0 + 2 * work_down
            t += lat + acc_l + 0.25 + 2 * work_down
            recon_lat = 0.0
            continue
        elif kind == "slow_close":
            # flow control: the transport still holds unflushed bytes when the peer closes (or sends garbage), so the client's
            # disconnect has to wait for the close to complete - anything scheduled earlier may fire in that window
            dur = rng.choice([0.125, 0.5, 1.0, 2.5])
            d1 = rng.choice([G.EPS, 0.125, 0.25])
            tl.append({"at": t, "op": "net.stall", "on": True})
            if api:
                tl.append({"at": t + G.EPS, "op": "user.api", "target": ["at"], "call": "check_for_updates", "args": {}})
            else:
                tl.append({"at": t + G.EPS, "op": "user.send", "msg": msgs[mi], "policy": "idem"})
                mi += 1
            tl.append({"at": t + d1, "op": "net.fates", "fates": recon})
            tl.append({"at": t + d1, "op": rng.choice(["net.fin", "net.fin", "console.raw"]), "hex": "00" * 24})
            tl.append({"at": t + d1 + dur, "op": "net.stall", "on": False})
            t += d1 + dur
            stale_timer = None
        elif kind == "fin_with_write_error":
            # the peer's FIN and a failing write land in the same loop pass: the read side sees EOF on a transport that is
            # already closing (and leaves the reset to "whoever closed it"), the write side sees the error
            tl.append({"at": t, "op": "net.fates", "fates": recon})
            tl.append({"at": t - G.EPS, "op": "net.fail_write", "nth": rng.choice([1, 1, 2]), "err": rng.choice(["EPIPE", "ECONNRESET"])})
            tl.append({"at": t, "op": "net.fin"})
            if api:
                tl.append({"at": t + lat, "op": "user.api", "target": ["ac", 0], "call": "set_fan_speed", "args": {"fan": rng.choice(["LOW", "HIGH", "AUTO", "MEDIUM"])}, "yields": rng.choice([0, 0, 1])})
            else:
                tl.append({"at": t + lat, "op": "user.send", "msg": msgs[mi], "policy": rng.choice(sendq.POLICIES), "yields": rng.choice([0, 0, 1])})
                mi += 1
        elif kind == "reply_write_error":
            # the failing write is one made from inside a message subscriber (a reply to a frame just received): the reset is
            # then started by a task the read loop itself is waiting for
            tl.append({"at": t, "op": "net.fates", "fates": recon})
            tl.append({"at": t - G.EPS, "op": "net.fail_write", "nth": 1, "err": rng.choice(["EPIPE", "ECONNRESET", "ETIMEDOUT"])})
            if api:
                tl.append({"at": t, "op": "console.set", "entity": ["ac", 0], "fields": {"error": rng.choice([3, 7, 0x22])}})
            else:
                tl.append({"at": t, "op": "console.raw", "hex": _probe_status(gen, rng.randint(0, 7)).hex()})
        elif kind == "write_error":
            tl.append({"at": t, "op": "net.fates", "fates": recon})
            tl.append({"at": t, "op": "net.fail_write", "nth": rng.choice([1, 2, 3]), "err": rng.choice(["EPIPE", "ECONNRESET", "ETIMEDOUT", "EHOSTUNREACH"])})
            for _ in range(rng.choice([1, 1, 2])):
                if not api:
                    tl.append({"at": t + G.EPS, "op": "user.send", "msg": msgs[mi], "policy": rng.choice(sendq.POLICIES), "yields": rng.choice([0, 1])})
                    mi += 1
                else:
                    tl.append({"at": t + G.EPS, "op": "user.api", "target": ["ac", 0], "call": "set_fan_speed", "args": {"fan": rng.choice(["LOW", "HIGH", "AUTO", "MEDIUM"])}})
        elif kind == "unencodable":
            which = rng.choice(["struct", "value", "noencoder", "header"])
            if api:
                # public call whose message cannot be encoded: a zone set-point outside one protocol byte
                tl.append({"at": t, "op": "user.api", "target": ["zone", 0], "call": "set_target_temperature", "args": {"temperature": rng.choice([400.0, -20.0, 36.0 if gen == 5 else 300.0])}})
            elif which == "noencoder":
                tl.append({"at": t, "op": "user.send_raw_object", "mid": 0x77, "policy": "idem"})
            elif which == "header":
                tl.append({"at": t, "op": "user.send_raw_object", "bad_header": True, "policy": "idem"})
            else:
                if gen == 4:
                    bad = {"kind": "group_control", "group": 300, "power": "on"} if which == "struct" else {"kind": "error_info_request", "ac": 300}
                else:
                    bad = {"kind": "zone_control", "zones": [{"zone": 300, "power": "on"}]} if which == "struct" else {"kind": "error_info_request", "ac": 300}
                tl.append({"at": t, "op": "user.send", "msg": bad, "policy": "idem", "unencodable": which})
            if rng.random() < 0.6:
                # make it wait in the queue: the link goes down first
                tl.append({"at": t - G.EPS, "op": "net.fates", "fates": [{"kind": "accept", "latency": rng.choice([0.125, 1.0])}]})
                tl.append({"at": t - G.EPS, "op": "net.rst"})
                t += lat
        elif kind == "send" and not api:
            tl.append({"at": t, "op": "user.send", "msg": msgs[mi], "policy": rng.choice(sendq.POLICIES), "yields": rng.choice([0, 1, 3])})
            mi += 1
    # after the script the network behaves
    t_last = t
    pending_fates = 6
    t_clear = t_last + max(lat, 1.0) + 2 * G.EPS
    tl.append({"at": t_clear, "op": "net.clear_faults"})
    tl.append({"at": t_clear, "op": "net.default_fate", "kind": "accept", "latency": rng.choice([0.0, 0.125])})
    t_probe = t_clear + pending_fates * 2.5 + 4.0 + 3.0
    marker = rng.randint(0, 7)
    if api:
        tl.append({"at": t_probe, "op": "console.set", "entity": ["ac", 0], "fields": {"setpoint": 20 + marker if gen == 4 else 20.0 + marker}, "probe": True})
    else:
        tl.append({"at": t_probe, "op": "console.raw", "hex": _probe_status(gen, marker).hex(), "probe": True})
    if api:
        tl.append({"at": t_probe + 0.5, "op": "user.api", "target": ["ac", 0], "call": "set_mode", "args": {"mode": "DRY"}, "probe": True})
    else:
        tl.append({"at": t_probe + 0.5, "op": "user.send", "msg": {"kind": "names_request", ("group" if gen == 4 else "zone"): 9}, "policy": "idem", "probe": True})
    tl.sort(key=lambda s: s["at"])
    sc = {"gen": gen, "mode": "api" if api else "socket", "knobs": dict(knobs, fates=fates), "timeline": tl, "end": t_probe + 2.0, "marker": marker}
    if api:
        inst = refconsole.default_installation(gen)
        inst["zones"][0]["state"] = {"sensor": True, "setpoint": 22 if gen == 4 else 22.0, "temp": 21.5}
        sc["installation"] = inst
    return sc


def execute(sc: dict) -> dict:
    gen = sc["gen"]
    api = sc["mode"] == "api"
    w = World(sc)
    if not api:
        w.console.apply_controls = False
        w.console.silent = True  # passive recorder at socket level
    endstate = {}

    def at_end(world):
        if api:
            try:
                ac = world.resolve(["ac", 0])
                endstate["target"] = None if ac is None else ac.target_temperature
            except Exception as exc:  # noqa: BLE001
                endstate["target"] = repr(exc)
        endstate["is_connected"] = getattr(world.sock, "is_connected", None)

    w.hooks["end"] = [at_end]
    w.run()
    opened = any(c["op"] in ("user.open", "user.init") and c["t_call"] is not None for c in w.calls)
    V = []
    probes = {}
    if api:
        probes["c07.api_class"] = 1
    trace = w.trace
    # --- single connection invariant
    for (seq, t, kind, f) in trace.events:
        if kind == "net.connect_result" and f.get("ok") and f.get("others"):
            V.append(viol("C07.single", {"t": t, "new_link": f["link"], "still_open": list(f["others"])}))
            break
    # --- every abandoned connection is closed
    accepted = [l for l in w.net.links if l.t_accept is not None]
    if accepted:
        newest = accepted[-1]
        for l in accepted:
            if l is not newest and not l.client_closed:
                V.append(viol("C07.abandoned_open", {"link": l.id, "opened_at": l.t_accept, "newest": newest.id}))
                break
    # --- probes
    fired = [e for e in trace.events if e[2] == "fault.fired"]
    if sc["knobs"].get("iter_cost"):
        probes["c07.loop_passes_take_time"] = 1
    if any(st.get("work_down") for st in sc["timeline"] if st["op"] == "user.sock_conn_subscribe"):
        probes["c07.slow_disconnect_notification"] = 1
        # a connection established while an earlier reset is still inside its notification fan-out
        downs = [e[1] for e in trace.events if e[2] == "sub.call" and e[3].get("k") == "slowconn" and e[3].get("args") == (False,)]
        wd = max(st.get("work_down", 0.0) for st in sc["timeline"] if st["op"] == "user.sock_conn_subscribe")
        if any(d < e[1] < d + wd for d in downs for e in trace.events if e[2] == "conn.made"):
            probes["c07.connection_made_inside_slow_reset"] = 1
    if any(e[2] == "sub.reply_raised" for e in trace.events) or (api and any(st.get("fields", {}).get("error") for st in sc["timeline"] if st["op"] == "console.set") and fired):
        probes["c07.write_error_inside_subscriber"] = 1
    if len({e[1] for e in fired}) < len(fired):
        probes["c07.double_reset_same_instant"] = 1
    attempts = {}
    for (seq, t, kind, f) in trace.events:
        if kind == "net.connect_attempt":
            attempts[f["n"]] = [t, None]
        elif kind in ("net.connect_result", "net.connect_cancelled") and f.get("n") in attempts:
            attempts[f["n"]][1] = t
    ftimes = [e[1] for e in fired] + [st["at"] for st in sc["timeline"] if st["op"] in ("user.send", "console.raw") and not st.get("probe")]
    for (a, b) in attempts.values():
        if b is not None and any(a < ft < b for ft in ftimes):
            probes["c07.fault_during_reconnect"] = 1
        if any(ft == a for ft in ftimes) and a > 0:
            probes["c07.fault_at_retry_timer"] = 1
    if any(st["op"] == "net.fin_next_accept" for st in sc["timeline"]):
        probes["c07.fin_at_accept"] = 1
    stalls = [(st["at"], st.get("on", True)) for st in sc["timeline"] if st["op"] == "net.stall"]
    if stalls:
        probes["c07.slow_close"] = 1
        spans = [(a, b) for (a, on), (b, _off) in zip(stalls[::2], stalls[1::2])]
        if any(a < at[0] < b and at[0] > 0 for at in attempts.values() for (a, b) in spans):
            probes["c07.connect_during_slow_close"] = 1
    tl_ops = [(st["at"], st["op"]) for st in sc["timeline"]]
    if any(op == "console.raw" and (at, "net.fin") in tl_ops for (at, op) in tl_ops):
        probes["c07.frame_then_fin"] = 1
    if "bad" in w.subs and any(e[2] == "sub.call" and e[3].get("k") == "bad" for e in trace.events):
        probes["c07.raising_subscriber"] = 1
    if any(st.get("unencodable") or st["op"] == "user.send_raw_object" for st in sc["timeline"]):
        probes["c07.unencodable_while_down"] = 1
    probe_raw = next((st for st in sc["timeline"] if st.get("probe") and st["op"] in ("console.raw", "console.set")), None)
    probe_cmd = next((st for st in sc["timeline"] if st.get("probe") and st["op"] not in ("console.raw", "console.set")), None)
    # "once the network behaves again": a peer window that stays closed for good is a network that does not
    stalled_for_good = False
    for st in sc["timeline"]:
        if st["op"] == "net.stall":
            stalled_for_good = bool(st.get("on", True))
        elif st["op"] == "net.clear_faults":
            stalled_for_good = False
    if w.verdict == "stepcap":
        V.append(viol("C07.livelock", {"steps": w.loop.steps, "t": w.loop._vtime}))
    elif stalled_for_good:
        pass
    elif probe_raw is not None and probe_cmd is not None and opened:
        t_probe = probe_raw["at"]
        cur = w.net.current_link()
        if cur is None:
            V.append(viol("C07.heal", {"why": "no open connection at probe time", "t": t_probe, "attempts": w.net.attempts}, why="not_connected"))
        else:
            sent = [x for x in w.console.tx if x["t"] >= t_probe and (api or x["raw"].hex() == probe_raw["hex"])]
            if not sent:
                V.append(viol("C07.heal", {"why": "probe frame could not be sent (no link on the console side)"}, why="not_connected"))
            else:
                if api:
                    delivered = isinstance(endstate.get("target"), (int, float)) and abs(endstate["target"] - (20 + sc["marker"] % 10)) < 1e-9
                else:
                    delivered = any(m["t"] >= t_probe and m["reading"]["kind"] == "ac_status" for m in w.messages)
                if not delivered:
                    V.append(viol("C07.heal", {"why": "probe status frame was not delivered to the subscriber", "link": cur.id,
                                               "connected_flag": endstate.get("is_connected")}, why="deaf"))
                else:
                    probes["c07.probe_delivered"] = 1
                # probe command
                call = next((c for c in w.calls if c["step"].get("probe")), None)
                want_kind = "ac_control" if api else "names_request"
                got = [e for e in w.console.rx if e["t"] >= probe_cmd["at"] and e["reading"]["kind"] == want_kind]
                if call is not None and call["exc"] is not None:
                    V.append(viol("C07.heal", {"why": "probe command raised", "exc": repr(call["exc"])}, why="mute"))
                elif not got:
                    V.append(viol("C07.heal", {"why": "probe command did not reach the console", "link": cur.id}, why="mute"))
                elif got[0]["link"] != cur.id:
                    V.append(viol("C07.heal", {"why": "probe command went out on a different connection than the one in use", "link": got[0]["link"], "current": cur.id}, why="other_link"))
    # --- once healed it stays healed: no reconnects long after the last fault
    if probe_raw is not None and opened and w.verdict != "stepcap":
        late = [e for e in trace.events if e[2] == "net.connect_attempt" and e[1] >= probe_raw["at"] - 1.0]
        if late:
            V.append(viol("C07.spurious_reset", {"t": late[0][1], "attempts_after_probe": len(late)}))
    cross = {}
    if w.final.get("exceptions"):
        cross["loop_exception_handler_called"] = len(w.final["exceptions"])
    return common.result(w, V, nontrivial=len(fired) >= 2 or bool(probes.get("c07.unencodable_while_down")), probes=probes, cross=cross)


LEVEL_TEXT = (
    "Seeded search over fault scripts and their timing against reconnect latency and the 2 s retry timer, on the real socket "
    "and on initialised API objects: the single-connection invariant is evaluated at every accepted connect, abandoned "
    "connections must be closed, and after the last fault a probe frame and a probe command must get through within a stated "
    "bound (bounded liveness). Sampled evidence, not proof."
)
LEVEL_NOTE = "Trusts sim/net.py as a model of connect/close/error delivery of the selector transport (validated by ./check --selftest) and the recovery bound stated in the assumptions."
TECHNIQUE = "deterministic simulation with seeded fault scripts (connect refusal/latency, FIN, RST, corrupt input, write errors, unencodable messages, raising subscribers); invariant at each connect + bounded-liveness probe"
