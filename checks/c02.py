"""C02 - Retry discipline: bounded attempts, none after expiry, non-idempotent once."""

from __future__ import annotations

from harness import gen as G
from harness.world import World
from ref import apispec

from . import common, sendq
from .common import viol

ID = "C02"
TITLE = "Retry discipline: bounded attempts, none after expiry, non-idempotent once"
LEVEL = "exploration"
RULE = (
    "seeded fault scripts on a real AirTouchSocket (socket class) and an initialised AirTouch4/5 (api class): write errors on "
    "the n-th transport.write (EPIPE/ECONNRESET/ETIMEDOUT, several per run), peer RST/FIN, refused/slow reconnects whose "
    "latency puts the next connection exactly at, one epsilon before or after a message's expiry; messages of all policies "
    "(named and custom); thorough tier adds an enumerated sub-space (3 messages x every write call x expiry offsets). "
    "non-trivial = at least one fault fired while a message was pending or in flight; distinct = trace shape"
)
COMPONENTS = {
    "real": ["pyairtouch.comms.socket.AirTouchSocket", "AirTouch4/AirTouch5 command paths (api class)", "registries, encoders", "asyncio streams/tasks/timers"],
    "stub": ["clock/_run_once (SimLoop)", "TCP with write-fault injection (SimNet)", "console (recorder / reference console)", "user timeline"],
}
ASSUMPTIONS = [
    "'put on the wire' = at least one byte of the frame handed to transport.write without error",
    "expected (retries, lifetime) per policy come from the property text and docs/design.md: idempotent (2, 30 s), non-idempotent (0, 30 s), connected (0, 1 s) - not read from the code under test",
    "a partial frame cut by an injected write error is attributed by the reference encoder (ref/encode.py)",
    "the +/-1 step and control-method flip have no public entry point; they are exercised at socket level with the non-idempotent policy and through the API's private command helper when it exists",
]
PROBES = ["c02.first_connection_dead_on_arrival", "c02.expiry_during_stalled_flush", "c02.chained_sends", "c02.close_window_class", "c02.write_into_closing_transport", "c02.fault_hit_pending", "c02.retry_seen", "c02.expired_after_fault", "c02.reconnect_at_exact_expiry", "c02.single_fault_class",
          "c02.api_class", "c02.toggle_under_fault", "c02.helper_step", "c02.budget_exhausted"]
EXHAUSTIVE = False


def budget(tier: str) -> int:
    return 16000 if tier == "quick" else 1_500_000


def gen_close_window(rng) -> dict:
    """The peer closes (or resets); a command is submitted in the very instant the client reacts - while the old transport is
    being closed and the socket still calls itself connected.  Its write meets a closing transport: that is one transient
    write failure from the client's point of view, and an idempotent command must survive it."""
    gen = rng.choice([4, 5])
    lat = rng.choice([0.0, G.TICK, 2.0**-7])
    knobs = {"latency": lat, "first_packet_id": rng.choice([0, 254]),
             "fates": [{"kind": "accept", "latency": 0.0}, {"kind": "accept", "latency": rng.choice([0.0, 0.125, 1.0])}]}
    t_f = G.dyadic(rng, 1.0, 3.0)
    msgs = sendq.distinct_messages(rng, gen, 3)
    # the link dies by a peer FIN, or by a reset / timeout / unreachable-host error reported on the read side (the error a
    # later drain() re-raises is then the transport's own, not the generic "connection lost")
    tl = [{"at": 0.0, "op": "user.open"}, {"at": t_f, "op": rng.choice(["net.fin", "net.rst", "net.rst"]), "err": rng.choice(["ECONNRESET", "ETIMEDOUT", "EHOSTUNREACH", "ENETUNREACH"])}]
    if rng.random() < 0.4:
        # the read loop is busy when the link dies: a frame arrived just before and its subscriber takes a few loop turns, so
        # the socket keeps calling itself connected while the transport already carries the error
        from harness import framegen

        tl.append({"at": 0.0, "op": "user.sock_subscribe", "name": "slow", "sub_yields": rng.choice([4, 8])})
        tl.append({"at": t_f, "op": "console.raw", "hex": framegen.frame(rng, gen, "version")[0].hex()})
        tl.sort(key=lambda s: (s["at"], 0 if s["op"] == "console.raw" else 1))
    n = rng.choice([1, 1, 2])
    for i in range(n):
        tl.append({"at": t_f + lat, "op": "user.send", "msg": msgs[i], "policy": rng.choice(["idem", "idem", {"retries": 1, "lifetime": 30.0}]), "yields": rng.choice([0, 1, 2, 3, 4])})
    if rng.random() < 0.4:
        tl.append({"at": t_f + lat + rng.choice([G.EPS, 0.5]), "op": "user.send", "msg": msgs[2], "policy": "idem"})
    tl.sort(key=lambda s: s["at"])
    return {"gen": gen, "mode": "socket", "knobs": knobs, "timeline": tl, "end": t_f + 8.0, "class": "close_window", "t_f": t_f + lat}


def gen_slow_flush(rng) -> dict:
    """Several messages wait for the link; the connection that takes them is under flow control from its first byte, so the
    flush is suspended after the first write - and some of the waiting messages reach the end of their lifetime during that
    stall. No fault anywhere: nothing may be written at or after its lifetime has elapsed, nothing more than once."""
    gen = rng.choice([4, 5])
    acc = rng.choice([0.5, 1.0, 2.0])
    d = rng.choice([0.5, 1.5, 4.0])
    knobs = {"latency": rng.choice([0.0, G.TICK]), "first_packet_id": rng.choice([0, 254]), "fates": [{"kind": "accept", "latency": acc}]}
    tl = [{"at": 0.0, "op": "user.open"}, {"at": 0.0, "op": "net.stall_next", "duration": d}]
    msgs = sendq.distinct_messages(rng, gen, rng.choice([2, 3, 5]))
    for i, m in enumerate(msgs):
        at = G.dyadic(rng, 0.0625, acc - 0.0625)
        # the first ones live long; later ones end inside the stall, exactly at its end, or survive it
        end_at = rng.choice([acc + d * 0.5, acc + d, acc + d - G.TICK, acc + G.TICK, acc + d + 1.0]) if i else 30.0 + at
        tl.append({"at": at, "op": "user.send", "msg": m, "policy": {"retries": rng.choice([0, 2]), "lifetime": max(0.125, end_at - at)}})
    tl.sort(key=lambda x: x["at"])
    return {"gen": gen, "mode": "socket", "knobs": knobs, "timeline": tl, "end": acc + d + 3.0, "class": "slow_flush"}


def exec_slow_flush(sc: dict) -> dict:
    w = World(sc).run()
    V = []
    probes = {"c02.expiry_during_stalled_flush": 1}
    h = sendq.History(w)
    for s in h.subs:
        if s["exc"] is not None or s["t_accept"] is None:
            continue
        deadline = s["t_accept"] + s["lifetime"]
        attempts = sorted((f["seq"], f["t"]) for f in s["tx"])
        if len(attempts) > 1:
            V.append(viol("C02.budget", {"sub": s["id"], "msg": s["desc"], "policy": s["policy"], "attempts": [a[1] for a in attempts], "allowed": 1, "slow_flush": True}, retries=s["retries"]))
        for a in attempts:
            if a[1] >= deadline:
                V.append(viol("C02.deadline", {"sub": s["id"], "msg": s["desc"], "policy": s["policy"], "t": a[1], "accept": s["t_accept"], "lifetime": s["lifetime"], "slow_flush": True},
                              at_exact=(a[1] == deadline)))
                break
    return common.result(w, V, nontrivial=True, probes=probes, evals=max(1, len(h.subs)))


def gen_init_doa(rng) -> dict:
    """API class, start-up: the very first connection is reset by the console as soon as it is accepted (the handshake's
    first request meets a dead transport); the next usable connection comes up one second or more later. Handshake requests
    have the 'connected' policy: one attempt, discarded unless a connection exists within one second."""
    gen = rng.choice([4, 5])
    from ref import console as refconsole

    inst = refconsole.default_installation(gen)
    p0 = rng.choice([0, 7, 250])
    later = rng.choice([[{"kind": "refuse", "latency": 0.0}, {"kind": "accept", "latency": 0.0}],
                        [{"kind": "accept", "latency": rng.choice([1.0, 1.5, 3.0])}],
                        [{"kind": "refuse", "latency": 0.5}, {"kind": "refuse", "latency": 0.0}, {"kind": "accept", "latency": 0.125}]])
    knobs = {"latency": rng.choice([0.0, G.TICK]), "first_packet_id": p0, "seg": {"mode": "whole"}, "fates": [{"kind": "accept", "latency": 0.0}] + later}
    tl = [{"at": 0.0, "op": "net.rst_next_accept", "delay": rng.choice([0.0, 0.0, G.EPS])}, {"at": G.EPS, "op": "user.init"}]
    return {"gen": gen, "mode": "api", "installation": inst, "knobs": knobs, "timeline": tl, "end": 14.0, "class": "init_doa", "p0": p0}


def exec_init_doa(sc: dict) -> dict:
    w = World(sc).run()
    V = []
    probes = {}
    links = [l for l in w.net.links if l.t_accept is not None]
    tried = any(e[2] in ("tx.write", "tx.dropped") and e[3].get("link") == (links[0].id if links else -1) for e in w.trace.events)
    if len(links) < 2 or not tried:
        return common.result(w, V, nontrivial=False, probes=probes)
    probes["c02.first_connection_dead_on_arrival"] = 1
    t1 = links[0].t_accept
    for f in common.client_frames(w):
        if f["link"] == links[0].id or not f["reading"]["kind"].endswith("_request"):
            continue
        if f["fr"]["pid"] == sc["p0"] % 256 and f["t"] >= t1 + 1.0:
            V.append(viol("C02.stale_request_sent", {"kind": f["reading"]["kind"], "packet_id": f["fr"]["pid"], "first_handed_to_a_transport_at": t1, "on_the_wire_at": f["t"],
                                                     "why": "the client's first request (one attempt, one second) re-appears on a later connection"}))
            break
    return common.result(w, V, nontrivial=True, probes=probes)


def generate(rng, index: int, tier: str) -> dict:
    if rng.random() < 0.25:
        return gen_api(rng)
    if rng.random() < 0.04:
        return gen_init_doa(rng)
    if rng.random() < 0.06:
        return gen_slow_flush(rng)
    if rng.random() < 0.12:
        return gen_close_window(rng)
    gen = rng.choice([4, 5])
    knobs = {"latency": rng.choice([0.0, G.TICK, 2.0**-7]), "first_packet_id": rng.choice([0, 254])}
    t_open = 0.0
    acc = rng.choice([0.0, 0.125])
    fates = [{"kind": "accept", "latency": acc}]
    T1 = acc
    n = rng.choice([1, 2, 3, 4, 6])
    msgs = sendq.distinct_messages(rng, gen, n)
    tl = [{"at": t_open, "op": "user.open"}]
    single = rng.random() < 0.3
    t0 = T1 + G.dyadic(rng, 0.25, 2.0)
    pending_down = single and rng.random() < 0.5
    if pending_down:
        # messages are accepted while the first connect is still in flight; the pre-armed write
        # error then hits the head of the queue when the connection drains it
        acc = rng.choice([0.5, 1.0])
        fates = [{"kind": "accept", "latency": acc}]
        T1 = acc
        t0 = G.dyadic(rng, 0.0625, acc - 0.0625)
    lifetimes = []
    sends = []
    for d in msgs:
        at = t0 if rng.random() < 0.6 else t0 + G.dyadic(rng, 0.0, 3.0)
        if pending_down:
            at = t0 + G.dyadic(rng, 0.0, 0.03125)
        if single:
            pol = rng.choice(["idem", {"retries": rng.choice([1, 2, 3]), "lifetime": rng.choice([5.0, 30.0])}])
        elif sendq.accumulating(gen, d) and rng.random() < 0.7:
            pol = "nonidem"
        else:
            pol = rng.choice(["idem", "idem", "nonidem", "connected", {"retries": rng.choice([0, 1, 2, 3]), "lifetime": rng.choice([0.5, 1.0, 2.0, 5.0])}])
        life = sendq.policy_numbers(pol)[1]
        lifetimes.append((at, life))
        sends.append({"at": at, "op": "user.send", "msg": d, "policy": pol, "yields": rng.choice([0, 0, 1])})
    if single and len(sends) >= 2 and rng.random() < 0.4:
        # one application task awaiting its commands one after the other (no yield of its own between them): the commands
        # behind the one whose write fails are submitted the moment that call returns
        sends.sort(key=lambda x: x["at"])
        head = dict(sends[0], at=t0)
        head["then"] = [{"msg": x["msg"], "policy": x["policy"]} for x in sends[1:]]
        sends = [head]
    tl += sends
    expiry_anchors = [a + l for a, l in lifetimes]
    if single:
        # exactly one write error; the network then behaves and reconnects at once
        tl.append({"at": t0 - G.EPS, "op": "net.fail_write", "nth": rng.choice([1, 2, 3]), "err": rng.choice(["EPIPE", "ECONNRESET", "ETIMEDOUT", "EHOSTUNREACH"])})
        fates.append({"kind": "accept", "latency": rng.choice([0.0, 0.125, 1.0])})
    else:
        nf = rng.choice([1, 1, 2, 3, 4, 6])
        k = 0
        for _ in range(nf):
            kind = rng.choice(["write", "write", "write", "rst", "fin", "stall_rst"])
            tf = t0 - G.EPS if rng.random() < 0.6 else t0 + G.dyadic(rng, 0.0, 3.0)
            if kind == "stall_rst":
                # frames are accepted by the transport (buffered), then the link dies before they drain
                tl.append({"at": tf, "op": "net.stall", "on": True})
                tl.append({"at": tf + rng.choice([G.TICK, 0.125, 0.5]), "op": "net.rst"})
            elif kind == "write":
                k += rng.choice([1, 2, 3, 4])
                tl.append({"at": tf, "op": "net.fail_write", "nth": k, "err": rng.choice(["EPIPE", "ECONNRESET", "ETIMEDOUT"])})
            elif kind == "rst":
                tl.append({"at": tf, "op": "net.rst"})
            else:
                tl.append({"at": tf, "op": "net.fin"})
            # what the reconnect after this fault looks like
            r = rng.random()
            if r < 0.4:
                fates.append({"kind": "accept", "latency": rng.choice([0.0, 0.125])})
            elif r < 0.7:
                # land the next connection around an expiry instant
                target = rng.choice(expiry_anchors) + rng.choice([-G.EPS, 0.0, G.EPS, -0.5, 0.5])
                start = max(tf, t0) if kind == "write" else tf + knobs["latency"]
                lat = target - start
                if lat > 0:
                    fates.append({"kind": "accept", "latency": lat})
                else:
                    fates.append({"kind": "accept", "latency": 0.0})
            else:
                fates.append({"kind": rng.choice(["refuse", "timeout"]), "latency": rng.choice([0.0, 0.5])})
                fates.append({"kind": "accept", "latency": rng.choice([0.0, 0.125, 27.0])})
    knobs["fates"] = fates
    tl.sort(key=lambda s: s["at"])
    return {"gen": gen, "mode": "socket", "knobs": knobs, "timeline": tl, "end": max(expiry_anchors + [t0]) + 8.0, "class": "single" if single else "multi"}


_API_CALLS = [
    (["ac", 0], "set_power", {"ac_power": "TOGGLE"}),
    (["ac", 0], "set_power", {"ac_power": "TURN_ON"}),
    (["ac", 0], "set_power", {"ac_power": "TURN_OFF"}),
    (["ac", 0], "set_mode", {"mode": "HEAT"}),
    (["ac", 0], "set_mode", {"mode": "COOL", "power_on": True}),
    (["ac", 0], "set_fan_speed", {"fan": "LOW"}),
    (["ac", 0], "set_fan_speed", {"fan": "HIGH"}),
    (["ac", 0], "set_target_temperature", {"temperature": 23.0}),
    (["ac", 0], "set_quick_timer", {"timer_type": "ON_TIMER", "value": {"delta_s": 3720}}),
    (["ac", 0], "set_quick_timer", {"timer_type": "OFF_TIMER", "value": {"time": [7, 30]}}),
    (["ac", 0], "clear_quick_timer", {"timer_type": "ON_TIMER"}),
    (["zone", 0], "set_power", {"zone_power": "ON"}),
    (["zone", 0], "set_power", {"zone_power": "OFF"}),
    (["zone", 1], "set_damper_percentage", {"percent": 35}),
    (["zone", 0], "set_target_temperature", {"temperature": 21.0}),
    (["at"], "check_for_updates", {}),
]


def gen_api(rng) -> dict:
    gen = rng.choice([4, 5])
    from ref import console as refconsole

    inst = refconsole.default_installation(gen)
    inst["zones"][0]["state"] = {"sensor": True, "setpoint": 22 if gen == 4 else 22.0, "temp": 21.5, "turbo_support": True} if gen == 4 else {"sensor": True, "setpoint": 22.0, "temp": 21.5}
    knobs = {"latency": rng.choice([G.TICK, 2.0**-7]), "first_packet_id": rng.choice([0, 250])}
    tl = [{"at": 0.0, "op": "user.init"}]
    t0 = 6.0
    calls = rng.sample(_API_CALLS, rng.choice([1, 2, 3, 4]))
    if rng.random() < 0.5 and (["ac", 0], "set_power", {"ac_power": "TOGGLE"}) not in calls:
        calls[0] = _API_CALLS[0]
    # at most one call that produces a timer-control frame (they are counted by kind)
    seen_tc = False
    kept = []
    for c in calls:
        is_tc = c[1] == "clear_quick_timer" or (c[1] == "set_quick_timer" and "time" in c[2]["value"])
        if is_tc and seen_tc:
            continue
        seen_tc = seen_tc or is_tc
        kept.append(c)
    calls = kept
    for (target, call, args) in calls:
        at = t0 if rng.random() < 0.7 else t0 + G.dyadic(rng, 0.0, 2.0)
        tl.append({"at": at, "op": "user.api", "target": target, "call": call, "args": args})
    if rng.random() < 0.4:
        tl.append({"at": t0, "op": "user.helper", "which": rng.choice(["ac_inc", "ac_dec", "zone_inc", "zone_method_change"])})
    fates = [{"kind": "accept", "latency": 0.0}]
    k = 0
    for _ in range(rng.choice([1, 2, 3, 5])):
        kind = rng.choice(["write", "write", "rst", "stall_rst"])
        tf = t0 - G.EPS if rng.random() < 0.7 else t0 + G.dyadic(rng, 0.0, 2.0)
        if kind == "stall_rst":
            tl.append({"at": tf, "op": "net.stall", "on": True})
            tl.append({"at": tf + rng.choice([G.TICK, 0.125]), "op": "net.rst"})
        elif kind == "write":
            k += rng.choice([1, 2, 3, 4, 7])
            tl.append({"at": tf, "op": "net.fail_write", "nth": k, "err": rng.choice(["EPIPE", "ECONNRESET"])})
        else:
            tl.append({"at": tf, "op": "net.rst"})
        fates.append({"kind": "accept", "latency": rng.choice([0.0, 0.125, 1.0, 31.0])})
    knobs["fates"] = fates
    tl.sort(key=lambda s: s["at"])
    return {"gen": gen, "mode": "api", "installation": inst, "knobs": knobs, "timeline": tl, "end": 60.0, "class": "api"}


def execute(sc: dict) -> dict:
    if sc.get("class") == "api":
        return execute_api(sc)
    if sc.get("class") == "slow_flush":
        return exec_slow_flush(sc)
    if sc.get("class") == "init_doa":
        return exec_init_doa(sc)
    w = World(sc).run()
    V = []
    probes = {}
    h = sendq.History(w)
    fault_times = [e[1] for e in w.trace.events if e[2] == "fault.fired"]
    for s in h.subs:
        if s["exc"] not in (None, "NotOpenError", "QueueOverflowError") and not V:
            # a transport error is the socket's to absorb (re-queue or drop according to the policy), not the caller's:
            # send() documents the not-open and overflow errors only, and a command that left as an exception is lost
            V.append(viol("C02.send_raised", {"sub": s["id"], "msg": s["desc"], "exc": s["exc"], "policy": s["policy"], "t": s["t_accept"]}, exc=s["exc"]))
        if s["exc"] is not None or s["t_accept"] is None:
            continue
        ta = s["t_accept"]
        deadline = ta + s["lifetime"]
        attempts = sorted([(f["seq"], f["t"], f["link"], "full") for f in s["tx"]] + [(p["seq"], p["t"], p["link"], "partial") for p in s["partial"]])
        if len(attempts) > 1:
            probes["c02.retry_seen"] = 1
        if len(attempts) == 1 + s["retries"] and s["retries"] > 0:
            probes["c02.budget_exhausted"] = 1
        if len(attempts) > 1 + s["retries"]:
            V.append(viol("C02.budget", {"sub": s["id"], "msg": s["desc"], "policy": s["policy"], "attempts": [(a[1], a[2], a[3]) for a in attempts],
                                         "allowed": 1 + s["retries"]}, retries=s["retries"]))
        for a in attempts:
            if a[1] == deadline:
                probes["c02.reconnect_at_exact_expiry"] = 1
            if a[1] >= deadline:
                V.append(viol("C02.deadline", {"sub": s["id"], "msg": s["desc"], "policy": s["policy"], "t": a[1], "accept": ta, "lifetime": s["lifetime"]},
                              at_exact=(a[1] == deadline)))
                break
        if any(ta <= ft for ft in fault_times) and not attempts:
            probes["c02.expired_after_fault"] = 1
        if any(l.t_accept == deadline for l in w.net.links):
            probes["c02.reconnect_at_exact_expiry"] = 1
    # single transient failure: the idempotent head message is re-sent first on the next connection
    if any(st.get("then") for st in sc["timeline"]):
        probes["c02.chained_sends"] = 1
    if sc.get("class") == "single":
        probes["c02.single_fault_class"] = 1
        failed = [e for e in w.trace.events if e[2] == "fault.fired" and e[3].get("k") == "tcp.write_error"]
        # another task wrote a second message into the already failed transport: two victims of one
        # failure, the property's "re-sent first" does not say which of them leads
        collateral = False
        if len(failed) == 1:
            fseq0 = failed[0][0]
            sends = [c for c in w.calls if c["op"] == "user.send" and c["seq_call"] is not None]
            vc = max((c for c in sends if c["seq_call"] < fseq0 and (c["seq_ret"] is None or c["seq_ret"] > fseq0)), key=lambda c: c["seq_call"], default=None)
            v_end = vc["seq_ret"] if vc is not None and vc["seq_ret"] is not None else 10**12
            # a call that runs concurrently with the failing one (it starts before the failing call has finished dealing with the
            # error) may write into the transport that has just failed: a second victim of the same failure.  A call that
            # starts after the failing call returned is not: by then the client knows the connection is gone
            overl = [c for c in sends if c is not vc and fseq0 < c["seq_call"] < v_end]
            if overl:
                first_o = min(c["seq_call"] for c in overl)
                collateral = any(e[2] == "tx.dropped" and e[0] > first_o for e in w.trace.events)
        if len(failed) == 1 and not collateral:
            flink = failed[0][3]["link"]
            fseq = failed[0][0]
            # the message being written when the fault hit
            victim = None
            for s in h.subs:
                for p in s["partial"]:
                    if p["link"] == flink:
                        victim = s
            if victim is None:
                # the failing write was the first byte of a frame: the victim is the next message in acceptance order not fully sent before
                nxt = [e for e in w.trace.events if e[0] > fseq and e[2] == "tx.failed"]
                if nxt:
                    hexdata = nxt[0][3]["data"]
                    from ref import encode
                    cands = [s for s in h.subs if s["exc"] is None and encode.prefix_matches(w.gen, s["desc"], bytes.fromhex(hexdata))]
                    if len(cands) == 1:
                        victim = cands[0]
            if victim is not None and victim["retries"] >= 1:
                later = [f for f in h.frames if f["link"] > flink]
                if later:
                    first = later[0]
                    t_reconn = min(l.t_accept for l in w.net.links if l.id > flink and l.t_accept is not None)
                    if t_reconn < victim["t_accept"] + victim["lifetime"] - 0.1:
                        if first.get("sub") != victim["id"]:
                            V.append(viol("C02.retry_not_first", {"victim": victim["id"], "first_on_next_connection": first.get("sub"), "msg": victim["desc"]}))
                else:
                    t_reconn = min((l.t_accept for l in w.net.links if l.id > flink and l.t_accept is not None), default=None)
                    if t_reconn is not None and t_reconn < victim["t_accept"] + victim["lifetime"] - 0.1:
                        V.append(viol("C02.lost_after_single_fault", {"victim": victim["id"], "msg": victim["desc"], "policy": victim["policy"]}))
    if sc.get("class") == "close_window":
        probes["c02.close_window_class"] = 1
        t_f = sc["t_f"]
        later_links = [l for l in w.net.links if l.t_accept is not None and l.t_accept >= t_f]
        for s in h.subs:
            if s["exc"] is not None or s["t_accept"] is None or s["retries"] < 1:
                continue
            if any(p["t"] == t_f for p in s["partial"]) or any(e[2] == "tx.dropped" and e[1] == t_f for e in w.trace.events):
                probes["c02.write_into_closing_transport"] = 1
            if later_links and later_links[0].t_accept < s["t_accept"] + s["lifetime"] - 0.1:
                # handed to a live transport at least once (a frame that a healthy transport accepted and the network then
                # lost is not the client's to repair); writes swallowed by a closing transport do not count
                if not s["tx"]:
                    V.append(viol("C02.lost_in_close_window", {"sub": s["id"], "msg": s["desc"], "policy": s["policy"], "t_accept": s["t_accept"], "peer_closed_at": t_f,
                                                               "next_connection": later_links[0].t_accept}))
                    break
    if h.unattributed:
        V.append(viol("C02.not_submitted", {"frame": h.unattributed[0]["raw"].hex()}))
    if w.verdict == "stepcap":
        V.append(viol("C02.stepcap", {"steps": w.loop.steps}))
    if fault_times:
        probes["c02.fault_hit_pending"] = 1
    return common.result(w, V, nontrivial=bool(fault_times), probes=probes, evals=max(1, len(h.subs)))


def _helper(world: World, step: dict):
    """Private command helpers (no public entry point for +/-1 step and method flip)."""
    import importlib

    which = step["which"]
    gen = world.gen
    try:
        if which.startswith("ac_"):
            ac = world.resolve(["ac", 0])
            fn = getattr(ac, "_send_ac_control_message", None)
            if fn is None or gen == 5:
                return None
            m = importlib.import_module("pyairtouch.at4.comms.x2C_ac_ctrl")
            return fn(set_point_control=m.AcIncreaseDecrease.INCREASE if which == "ac_inc" else m.AcIncreaseDecrease.DECREASE)
        z = world.resolve(["zone", 0])
        if gen == 4:
            fn = getattr(z, "_send_group_control_message", None)
            if fn is None:
                return None
            m = importlib.import_module("pyairtouch.at4.comms.x2A_group_ctrl")
            if which == "zone_inc":
                return fn(setting=m.GroupIncreaseDecrease.INCREASE)
            return fn(control_method=m.GroupControlMethod.CHANGE)
        fn = getattr(z, "_send_zone_control_message", None)
        if fn is None:
            return None
        m = importlib.import_module("pyairtouch.at5.comms.xC020_zone_ctrl")
        if which == "zone_inc":
            return fn(zone_setting=m.ZoneIncreaseDecrease.INCREASE)
        return fn(zone_power=m.ZonePowerControl.TOGGLE)
    except (ImportError, AttributeError):
        return None


def _install_helper_op() -> None:
    if hasattr(World, "op_user_helper"):
        return

    def op_user_helper(self, step):
        async def go():
            coro = _helper(self, step)
            if coro is None:
                self.trace.count("c02.helper_skipped")
                return "skipped"
            self.trace.count("c02.helper_step")
            await coro
            return "sent"

        self._spawn_user(step, go)

    World.op_user_helper = op_user_helper


_install_helper_op()

_HELPER_PRED = {
    "ac_inc": lambda g, r: r["kind"] == "ac_control" and g == 4 and r["sp_type"] == "inc",
    "ac_dec": lambda g, r: r["kind"] == "ac_control" and g == 4 and r["sp_type"] == "dec",
    "zone_inc": lambda g, r: (r["kind"] == "group_control" and r["setting"] == "inc") or (r["kind"] == "zone_control" and r["zones"][0]["setting"] == "inc"),
    "zone_method_change": lambda g, r: (r["kind"] == "group_control" and r["method"] == "change") or (r["kind"] == "zone_control" and r["zones"][0]["power"] == "next"),
}


def execute_api(sc: dict) -> dict:
    from ref import model as refmodel

    w = World(sc).run()
    gen = sc["gen"]
    V = []
    probes = {"c02.api_class": 1}
    wire = common.wire(gen)
    inst = sc["installation"]
    # all complete client frames with time of first byte
    frames = []
    for link in w.net.links:
        buf = b"".join(d for (_s, _t, d) in link.tx_writes)
        frs, verdict, consumed = wire.parse_stream(buf)
        offs, pos = [], 0
        for (s, t, d) in link.tx_writes:
            offs.append((pos, pos + len(d), s, t))
            pos += len(d)
        for fr in frs:
            first = next(o for o in offs if o[0] <= fr["at"] < o[1])
            frames.append({"seq": first[2], "t": first[3], "link": link.id, "reading": wire.read(fr)})
    frames.sort(key=lambda f: f["seq"])
    m = refmodel.Model(gen, inst, common.META)
    common.feed_model(w, m)
    fault_times = [e[1] for e in w.trace.events if e[2] == "fault.fired"]
    for c in w.calls:
        if c["op"] == "user.helper":
            if c["result"] != "sent" or c["t_call"] is None:
                continue
            pred = _HELPER_PRED[c["step"]["which"]]
            mine = [f for f in frames if pred(gen, f["reading"]) and f["t"] >= c["t_call"]]
            if len(mine) > 1:
                V.append(viol("C02.accumulating_repeated", {"helper": c["step"]["which"], "times": [f["t"] for f in mine]}))
            continue
        if c["op"] != "user.api" or c["t_call"] is None or c["exc"] is not None:
            continue
        st = c["step"]
        ctx = {}
        if st["target"][0] == "ac":
            a = next(x for x in inst["acs"] if x["ac"] == st["target"][1])
            ctx = {"ac": a, "timer": None, "limits": [(min(a.get("min_heat", 0), a.get("min_cool", 0)), max(a.get("max_heat", 0), a.get("max_cool", 0)))]}
        elif st["target"][0] == "zone":
            ctx = {"zone": m.zone_status.get(st["target"][1])}
            if ctx["zone"] is None:
                continue
        exp = apispec.expect_api(gen, st["target"], st["call"], st["args"], ctx)
        if "accept" not in exp:
            continue
        if st["call"] in ("set_quick_timer", "clear_quick_timer") and "delta_s" not in st["args"].get("value", {}):
            # timer control frames depend on the last reported timer state; count by kind
            mine = [f for f in frames if f["reading"]["kind"] == "timer_control" and f["t"] >= c["t_call"]]
        else:
            mine = [f for f in frames if f["t"] >= c["t_call"] and any(_safe(p, f["reading"]) for p in exp["accept"])]
        retries, life = sendq.SPEC_POLICY[exp["policy"]]
        if st["call"] == "check_for_updates":
            continue  # indistinguishable from heartbeats on the wire
        if st["call"] == "set_power" and st["args"].get("ac_power") == "TOGGLE" and fault_times:
            probes["c02.toggle_under_fault"] = 1
        if len(mine) > 1 + retries:
            rule = "C02.accumulating_repeated" if retries == 0 else "C02.budget"
            V.append(viol(rule, {"call": st["call"], "args": st["args"], "times": [f["t"] for f in mine], "allowed": 1 + retries}))
        for f in mine:
            if f["t"] >= c["t_call"] + life:
                V.append(viol("C02.deadline", {"call": st["call"], "t": f["t"], "accept": c["t_call"], "lifetime": life}, at_exact=False))
                break
    if w.verdict == "stepcap":
        V.append(viol("C02.stepcap", {"steps": w.loop.steps}))
    return common.result(w, V, nontrivial=bool(fault_times), probes=probes, evals=max(1, len(w.calls)))


def _safe(pred, reading) -> bool:
    try:
        return bool(pred(reading))
    except (KeyError, IndexError, TypeError):
        return False


LEVEL_TEXT = (
    "Seeded search over fault placements (write errors on chosen transport.write calls, RST/FIN, refused or slow reconnects "
    "timed against the 1 s / 30 s lifetimes incl. exact-boundary instants) on the real socket and on initialised API objects; "
    "the recorded wire history is checked per submission for attempt budget, deadline, once-only for accumulating commands, and "
    "re-send-first after a single transient failure. Sampled evidence, not proof."
)
LEVEL_NOTE = "Policy numbers are taken from the property text, not from the code; partial frames are attributed with ref/encode.py; trusts sim/net.py's model of a failing write (validated against a real transport for RST / close)."
TECHNIQUE = "deterministic simulation with injected write/reset/refusal faults at seeded instants (incl. expiry boundaries); history check of per-message transmissions"
