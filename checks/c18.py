"""C18 - Discovery reports each answering console once, correctly, and terminates."""

from __future__ import annotations

from harness import gen as G
from harness.world import World

from . import common
from .common import viol

ID = "C18"
TITLE = "Discovery reports each answering console once, correctly, and terminates"
LEVEL = "exploration"
RULE = (
    "pyairtouch.discover() (broadcast and unicast) on a simulated UDP socket: 0..4 consoles per generation answer reactively "
    "(after the n-th request, with delay) or at absolute instants drawn around the three request instants (exactly at them, "
    "just before the end of an interval, after the last interval); payloads from the vendor response grammar (commas in the "
    "name, UTF-8), duplicates, echoes of the request, wrong part counts, id in the wrong position, invalid UTF-8, the other "
    "generation's format, random datagrams; loss / duplication / reordering arise from the delays. Checked: request payload, "
    "destination, count and 0.5 s spacing, no request after an answered interval, termination, the returned set with exact "
    "fields, model and the port each client connects to. non-trivial = at least one datagram delivered; distinct = trace shape"
)
COMPONENTS = {
    "real": ["pyairtouch.discover / factory._search", "comms.discovery.AirTouchDiscoverer + _DiscoveryDecodeProtocol", "at4/at5 discovery decoders", "asyncio tasks/sleep"],
    "stub": ["clock/_run_once (SimLoop)", "UDP endpoint (SimDatagramTransport) and socket module of pyairtouch.comms.discovery (FakeSocketModule)",
             "asyncio.as_completed order", "consoles = scenario datagrams"],
}
ASSUMPTIONS = [
    "a datagram arriving less than 10 ms before a discoverer closes its socket may or may not be reported",
    "pyairtouch/comms/udp.py is not reachable from the public API and is not executed",
]
PROBES = ["c18.no_answer_three_requests", "c18.answer_first_interval", "c18.answer_second_interval", "c18.duplicate", "c18.comma_in_name",
          "c18.second_discovery_same_answers", "c18.invalid_utf8", "c18.wrong_parts", "c18.echo", "c18.late_datagram", "c18.unicast", "c18.both_generations", "c18.at_request_instant", "c18.consoles_sharing_fields"]

REQ = {49004: b"HF-A11ASSISTHREAD", 49005: b"::REQUEST-POLYAIRE-AIRTOUCH-DEVICE-INFO:;"}


def budget(tier: str) -> int:
    return 8000 if tier == "quick" else 600_000


def _valid(rng, port: int, like: dict | None = None):
    ip = f"192.168.{rng.randint(0, 3)}.{rng.randint(2, 250)}"
    serial = rng.choice(["AA:BB:CC:DD:EE:0%d" % rng.randint(0, 9), "console-%d" % rng.randint(1, 99), ""])
    ident = str(rng.randint(10000, 99999999))
    name5 = rng.choice(["Home", "Beach House", "Casa, Sur", "a,b,c", "Büro", "客厅", "", "x" * 40, "Office ", " Den", "Shed\t", " ", "a, ", "Loft\r\n"])
    if rng.random() < 0.1:
        ident += rng.choice([" ", "\t", "\n"])  # the last field of an AirTouch 4 answer; inside one on AirTouch 5
    if rng.random() < 0.05:
        ip = " " + ip
    if like is not None:
        # a different console that shares all but one or two fields with another one (same id on two wall consoles,
        # same name, same serial text, same address after a DHCP change): not a duplicate
        keep = rng.sample(["host", "serial", "id", "name"], rng.choice([2, 3, 3]))
        if "name" in keep and port == 49004:
            keep = [k for k in keep if k != "name"] or ["id"]
        ip = like["host"] if "host" in keep else ip
        serial = like["serial"] if "serial" in keep else serial + "'"
        ident = like["id"] if "id" in keep else ident
        name5 = like["name"] if "name" in keep and port == 49005 else name5
        if rng.random() < 0.2:
            # differs from the other console only by white space at the edge of its last field
            ip, serial, ident = like["host"], like["serial"], like["id"]
            if port == 49005:
                name5 = like["name"] + " "
            else:
                ident = like["id"] + " "
        if port == 49004:
            return f"{ip},{serial},AirTouch4,{ident}".encode(), {"host": ip, "serial": serial, "id": ident, "name": "AirTouch 4", "model": "AIRTOUCH_4", "port": 9004}
        return f"{ip},{serial},AirTouch5,{ident},{name5}".encode("utf-8"), {"host": ip, "serial": serial, "id": ident, "name": name5, "model": "AIRTOUCH_5", "port": 9005}
    if port == 49004:
        if rng.random() < 0.15:
            ident += "," + rng.choice(["x", "7"])
        return f"{ip},{serial},AirTouch4,{ident}".encode(), {"host": ip, "serial": serial, "id": ident, "name": "AirTouch 4", "model": "AIRTOUCH_4", "port": 9004}
    name = name5
    return f"{ip},{serial},AirTouch5,{ident},{name}".encode("utf-8"), {"host": ip, "serial": serial, "id": ident, "name": name, "model": "AIRTOUCH_5", "port": 9005}


def _junk(rng, port: int) -> tuple[bytes, str]:
    k = rng.choice(["echo", "parts", "position", "position", "utf8", "other_gen", "random", "empty"])
    tag = b"AirTouch4" if port == 49004 else b"AirTouch5"
    if k == "echo":
        return REQ[port], k
    if k == "parts":
        return (b"1.2.3.4," + tag + b",77") if rng.random() < 0.5 else (b"1.2.3.4,ser," + tag + (b"" if port == 49004 else b",id")), k
    if k == "position":
        r = rng.random()
        if r < 0.35:
            return b"1.2.3.4," + tag + b",ser,99" + (b",nm" if port == 49005 else b""), k
        if r < 0.7:
            # the marker one or two parts too late (an extra leading part), everything behind it looking like a response
            extra = rng.choice([b"gw,", b"gw,x,", b","])
            return b"1.2.3.4," + extra + b"ser," + tag + b",id7" + (b",Home" if port == 49005 else b""), k
        if r < 0.85:
            # the marker only as part of a longer field
            return b"1.2.3.4,ser,x" + tag + b",id7" + (b",Home" if port == 49005 else b""), k
        return b"1.2.3.4,ser," + tag + b"x,id7" + (b",Home" if port == 49005 else b""), k
    if k == "utf8":
        return b"1.2.3.4,\xff\xfe," + tag + b",123" + (b",n\xffm" if port == 49005 else b""), k
    if k == "other_gen":
        other = 49005 if port == 49004 else 49004
        return _valid(rng, other)[0], k
    if k == "empty":
        return b"", k
    return bytes(rng.randrange(256) for _ in range(rng.randint(1, 40))), k


def generate(rng, index: int, tier: str) -> dict:
    t0 = G.dyadic(rng, 0.0, 1.0)
    unicast = rng.random() < 0.3
    host = "192.168.1.77" if unicast else None
    tl = [{"at": t0, "op": "user.discover", "remote_host": host}]
    responders = []
    for port in (49004, 49005):
        n = rng.choice([0, 0, 1, 1, 2, 4])
        prev = None
        for _ in range(n):
            data, _exp = _valid(rng, port, like=prev if (prev is not None and rng.random() < 0.5) else None)
            prev = _exp
            mode = rng.choice(["reactive", "reactive", "absolute"])
            if mode == "reactive":
                responders.append({"port": port, "hex": data.hex(), "delay": rng.choice([0.0, G.TICK, 0.125, 0.4, 0.5 - G.EPS, 0.5, 0.6, 1.2]),
                                   "on_requests": rng.choice([[1], [1, 2, 3], [2], [3], [2, 3]]), "copies": rng.choice([1, 1, 2, 3]), "copy_gap": rng.choice([0.0, 0.125])})
            else:
                at = t0 + G.pick_time(rng, 0.0, 1.8, anchors=[0.0, 0.5, 1.0, 1.5])
                tl.append({"at": at, "op": "udp.deliver", "port": port, "hex": data.hex()})
        for _ in range(rng.choice([0, 0, 1, 2, 3])):
            data, kind = _junk(rng, port)
            at = t0 + G.pick_time(rng, 0.0, 1.6, anchors=[0.0, 0.5, 1.0])
            tl.append({"at": at, "op": "udp.deliver", "port": port, "hex": data.hex(), "junk": kind})
    warm = rng.random() < 0.12
    if warm:
        # an earlier discovery by the same process, answered with the very datagrams the observed one will see again (an
        # unchanged console always sends the same answer): everything is shifted by three seconds, the earlier search is
        # not judged
        shift = 3.0
        for x in tl:
            x["at"] += shift
        t0 += shift
        seen_hex = sorted({r["hex"] for r in responders} | {x["hex"] for x in tl if x["op"] == "udp.deliver" and not x.get("junk")})
        ports = {h: next((r["port"] for r in responders if r["hex"] == h), None) or next(x["port"] for x in tl if x.get("hex") == h) for h in seen_hex}
        tl.append({"at": 0.0, "op": "user.discover", "remote_host": host, "warm": True})
        for i, h in enumerate(seen_hex):
            tl.append({"at": 0.125 + i * G.TICK, "op": "udp.deliver", "port": ports[h], "hex": h, "warm": True})
        tl.append({"at": shift - 0.125, "op": "udp.responders", "responders": responders})
    else:
        tl.append({"at": 0.0, "op": "udp.responders", "responders": responders})
    tl.append({"at": t0 + 3.0, "op": "user.init_discovered"})
    tl.sort(key=lambda s: s["at"])
    return {"gen": 4, "mode": "discover", "knobs": {}, "timeline": tl, "end": t0 + 12.0, "t0": t0, "host": host, "warm": warm}


def _classify(port: int, data: bytes):
    """Reference grammar of the vendor documents: None = adds nothing, else expected entry."""
    tag = b"AirTouch4" if port == 49004 else b"AirTouch5"
    nparts = 4 if port == 49004 else 5
    if data == REQ[port]:
        return None
    parts = data.split(b",", nparts - 1)
    if len(parts) != nparts or parts[2] != tag:
        return None
    try:
        txt = [p.decode("utf-8") for p in parts]
    except UnicodeDecodeError:
        return None
    if port == 49004:
        return {"host": txt[0], "serial": txt[1], "id": txt[3], "name": "AirTouch 4", "model": "AIRTOUCH_4", "port": 9004}
    return {"host": txt[0], "serial": txt[1], "id": txt[3], "name": txt[4], "model": "AIRTOUCH_5", "port": 9005}


def execute(sc: dict) -> dict:
    w = World(sc)
    found = []

    def at_end(world):
        for at in world.discovered or []:
            found.append({"host": at.host, "serial": at.serial, "id": at.airtouch_id, "name": at.name, "model": at.model.name})

    w.hooks["end"] = [at_end]
    w.run()
    V = []
    probes = {}
    call = next((c for c in w.calls if c["op"] == "user.discover" and not c["step"].get("warm")), None)
    if call is None or call["t_call"] is None:
        return common.result(w, V, nontrivial=False)
    t0 = call["t_call"]
    ev = [e for e in w.trace.events if e[1] >= t0 - 1e-9]  # (an earlier, unjudged discovery of the same process lies before t0)
    if sc.get("warm"):
        probes["c18.second_discovery_same_answers"] = 1
    if sc.get("host"):
        probes["c18.unicast"] = 1
    if call["t_ret"] is None:
        V.append(viol("C18.never_returns", {"t0": t0}))
        return common.result(w, V, nontrivial=True, probes=probes)
    if call["exc"] is not None:
        V.append(viol("C18.raises", {"exc": repr(call["exc"])}))
    if call["t_ret"] > t0 + 1.5 + 0.05:
        V.append(viol("C18.late_return", {"dur": call["t_ret"] - t0}))
    expected_must, expected_may, forbidden_after = [], [], []
    any_delivered = False
    for port in (49004, 49005):
        sends = [(e[1], bytes.fromhex(e[3]["data"]), e[3]["addr"]) for e in ev if e[2] == "udp.sendto" and e[3]["port"] == port]
        closes = [e[1] for e in ev if e[2] == "udp.close" and e[3]["port"] == port]
        recvs = [(e[1], bytes.fromhex(e[3]["data"])) for e in ev if e[2] == "udp.recv" and e[3]["port"] == port]
        t_close = closes[0] if closes else None
        if recvs:
            any_delivered = True
        # requests
        if not sends:
            V.append(viol("C18.no_request", {"port": port}))
            continue
        want_addr = (sc.get("host") or "255.255.255.255", port)
        for i, (t, data, addr) in enumerate(sends):
            if data != REQ[port]:
                V.append(viol("C18.request_payload", {"port": port, "data": data.hex()}))
                break
            if tuple(addr) != want_addr:
                V.append(viol("C18.request_destination", {"port": port, "addr": addr, "want": want_addr}))
                break
            if abs(t - (sends[0][0] + 0.5 * i)) > 0.05:
                V.append(viol("C18.request_spacing", {"port": port, "times": [s[0] for s in sends]}))
                break
        if len(sends) > 3:
            V.append(viol("C18.too_many_requests", {"port": port, "n": len(sends)}))
        # how many requests should there have been: stop after the first interval with a valid answer
        ts = sends[0][0]
        valid = [(t, _classify(port, d)) for (t, d) in recvs]
        want_n = 3
        ambiguous = False
        for k in range(3):
            lo, hi = ts + 0.5 * k, ts + 0.5 * (k + 1)
            hits = [t for (t, c) in valid if c is not None and t < hi - 0.01]
            near = [t for (t, c) in valid if c is not None and hi - 0.01 <= t <= hi + 0.01]
            if hits:
                want_n = k + 1
                probes["c18.answer_first_interval" if k == 0 else "c18.answer_second_interval"] = 1
                break
            if near:
                ambiguous = True
                break
        if not ambiguous and len(sends) != want_n and not V:
            V.append(viol("C18.request_count", {"port": port, "sent": len(sends), "expected": want_n, "valid_answer_times": [t for (t, c) in valid if c][:5], "first_request": ts},
                          more=len(sends) > want_n))
        if want_n == 3 and not any(c for (_t, c) in valid):
            probes["c18.no_answer_three_requests"] = 1
        if t_close is None:
            V.append(viol("C18.socket_not_closed", {"port": port}))
            continue
        for (t, c) in valid:
            if c is None:
                continue
            if t < t_close - 0.01:
                expected_must.append(c)
            elif t <= t_close:
                expected_may.append(c)
        for st in sc["timeline"]:
            if st["op"] == "udp.deliver" and st["port"] == port and st["at"] > t_close:
                probes["c18.late_datagram"] = 1
            if st["op"] == "udp.deliver" and st["port"] == port and any(abs(st["at"] - (ts + 0.5 * k)) < 1e-9 for k in range(3)):
                probes["c18.at_request_instant"] = 1
            if st.get("junk") == "utf8":
                probes["c18.invalid_utf8"] = 1
            if st.get("junk") in ("parts", "position"):
                probes["c18.wrong_parts"] = 1
            if st.get("junk") == "echo":
                probes["c18.echo"] = 1
    key = lambda c: (c["model"], c["host"], c["serial"], c["id"], c["name"])  # noqa: E731
    must = {key(c) for c in expected_must}
    may = {key(c) for c in expected_may} | must
    got_list = [key(c) for c in found]
    got = set(got_list)
    if len(expected_must) != len(must):
        probes["c18.duplicate"] = 1
    if any("," in c["name"] for c in expected_must):
        probes["c18.comma_in_name"] = 1
    ml = sorted(must)
    if any(a != b and a[0] == b[0] and sum(x == y for x, y in zip(a[1:], b[1:])) >= 2 for a in ml for b in ml):
        probes["c18.consoles_sharing_fields"] = 1
    if {c["model"] for c in expected_must} == {"AIRTOUCH_4", "AIRTOUCH_5"}:
        probes["c18.both_generations"] = 1
    if not V:
        if len(got_list) != len(got):
            V.append(viol("C18.duplicate_entry", {"returned": got_list[:6]}))
        elif must - got:
            V.append(viol("C18.missing_entry", {"missing": sorted(must - got)[:3], "returned": sorted(got)[:6]}))
        elif got - may:
            V.append(viol("C18.wrong_entry", {"unexpected": sorted(got - may)[:3], "expected": sorted(may)[:6]}))
    # returned clients connect to the right host / port
    if not V:
        attempts = {(e[3]["host"], e[3]["port"]) for e in ev if e[2] == "net.connect_attempt"}
        want_ports = {(c["host"], c["port"]) for c in expected_must}
        if found and not (want_ports <= attempts):
            V.append(viol("C18.client_port", {"connects_to": sorted(attempts)[:6], "expected": sorted(want_ports)[:6]}))
    cross = {}
    if w.final.get("exceptions"):
        cross["exception escaped datagram_received into the loop handler"] = len(w.final["exceptions"])
    return common.result(w, V, nontrivial=any_delivered, probes=probes, cross=cross)


LEVEL_TEXT = (
    "Seeded search over datagram contents and arrival instants relative to the three request instants, for broadcast and "
    "unicast discovery, on a simulated UDP endpoint with virtual time: request discipline, termination, the returned set and "
    "the returned clients are checked against the vendor response grammar. Sampled evidence."
)
LEVEL_NOTE = "The socket module inside pyairtouch.comms.discovery is replaced by an inert fake (no bind, no broadcast); trusts the reference grammar in checks/c18.py::_classify."
TECHNIQUE = "deterministic simulation of UDP discovery (virtual clock, seeded datagram arrival/duplication/delay, malformed datagrams); history check of requests and returned set"
