"""C13 - Reception is independent of TCP segmentation."""

from __future__ import annotations

import itertools
import random

from harness import framegen
from ref import wire4, wire5
from harness import gen as G
from harness.world import World

from . import common, readcmp
from .common import viol

ID = "C13"
TITLE = "Reception is independent of TCP segmentation"
LEVEL = "exploration"
RULE = (
    "metamorphic: one console byte stream (1..6 frames of every status / answer / unknown kind, 8 % with one frame of 255..65523 payload bytes, both generations) is delivered "
    "to the real socket once whole and once cut at generated points (0..40 cuts, all-single-bytes, many-frames-in-one-chunk) "
    "with 0, one epsilon or one tick (4 %: 7 / 45 / 400 s) of virtual time (= loop turns) between chunks; both deliveries must produce the same "
    "messages, once each, in order, and as many as the reference framing finds. Thorough tier additionally enumerates every "
    "placement of <= 3 cuts in two fixed 2-3 frame streams (quick: <= 2 cuts in one stream). non-trivial = at least one cut "
    "inside a frame; distinct = distinct (frame kinds, cut positions relative to frame structure) signature"
)
COMPONENTS = {
    "real": ["pyairtouch.comms.socket.AirTouchSocket._read/_read_one_message", "header decoders, message decoders, crc16", "asyncio.StreamReader.readexactly"],
    "stub": ["clock/_run_once (SimLoop)", "TCP delivery (SimNet chunks)", "console = byte source"],
}
ASSUMPTIONS = ["only well-formed streams are segmented here (malformed input is C06/C17)"]
PROBES = ["c13.long_pause_inside_frame", "c13.long_frame_cut_in_tail", "c13.cut_in_prefix", "c13.cut_in_length", "c13.cut_in_crc", "c13.single_bytes", "c13.many_frames_one_chunk", "c13.turns_between_chunks"]
EXHAUSTIVE = True


def budget(tier: str) -> int:
    return 8000 if tier == "quick" else 600_000


def _stream(rng, gen: int):
    n = rng.choice([1, 2, 2, 3, 4, 6])
    frames = []
    for _ in range(n):
        if rng.random() < 0.2:
            frames.append(framegen.unknown_frame(rng, gen)[0])
        elif rng.random() < 0.08:
            frames.append(framegen.foreign_address_frame(rng, gen)[0])  # traffic of another client on the same link
        else:
            frames.append(framegen.frame(rng, gen)[0])
    if rng.random() < 0.1:
        # a frame repeated verbatim - packet id and all - directly behind itself (a console repeats its broadcasts), with more
        # traffic behind the pair
        i = rng.randrange(len(frames))
        frames.insert(i, frames[i])
        if i + 2 >= len(frames):
            frames.append(framegen.frame(rng, gen)[0])
    if rng.random() < 0.08:
        # two frames with the very same data section and different message types (the data section alone does not say what
        # a frame is: two empty requests, or the same bytes under two unknown types), not necessarily adjacent
        w = wire4 if gen == 4 else wire5
        known = {0x1F, 0x2A, 0x2B, 0x2C, 0x2D, 0x36, 0x37} if gen == 4 else {0x1F, 0xC0}
        pay = bytes(rng.randrange(256) for _ in range(rng.choice([0, 0, 1, 3, 8])))
        if gen == 4 and not pay and rng.random() < 0.5:
            ts = rng.sample([0x2B, 0x2D, 0x37], 2)  # empty data section = the status requests
        else:
            ts = rng.sample([x for x in range(256) if x not in known], 2)
        for t in ts:
            frames.insert(rng.randrange(len(frames) + 1), w.frame(w.ADDR_CLIENT, w.ADDR_CONSOLE, rng.randrange(256), t, pay))
    if rng.random() < 0.08:
        # the length field is 16 bits wide: a frame much longer than everyday traffic, somewhere in the stream
        size = rng.choice(framegen.HUGE_SIZES) if rng.random() < 0.25 else None
        frames.insert(rng.randrange(len(frames) + 1), framegen.long_frame(rng, gen, size=size)[0])
    return frames


def generate(rng, index: int, tier: str) -> dict:
    gen = rng.choice([4, 5])
    frames = _stream(rng, gen)
    data = b"".join(frames)
    mode = rng.choice(["few", "few", "many", "bytes", "structural"])
    n = len(data)
    longest = max(range(len(frames)), key=lambda i: len(frames[i]))
    if len(frames[longest]) > 250:
        mode = rng.choice(["few", "many", "structural", "tail", "tail"] + (["bytes"] if n < 1600 else []))
    if mode == "bytes":
        cuts = list(range(1, n))
    elif mode == "few":
        cuts = sorted(rng.sample(range(1, n), min(n - 1, rng.randint(1, 4))))
    elif mode == "many":
        cuts = sorted(rng.sample(range(1, n), min(n - 1, rng.randint(5, 40))))
    elif mode == "tail":
        # cuts in the last part of the long frame (including between its check bytes and right behind it)
        end = sum(len(f) for f in frames[: longest + 1])
        lo = max(1, end - rng.choice([3, 40, 600, 1100]))
        cands = [c for c in range(lo, min(n, end + 2))]
        cuts = sorted(rng.sample(cands, min(len(cands), rng.randint(1, 4))))
    else:
        # cuts at structurally interesting offsets of a random frame
        off = 0
        cands = []
        hl = 8 if gen == 4 else 20
        for f in frames:
            cands += [off + k for k in (1, 2, 3, 4, hl - 2, hl - 1, hl, hl + 1, len(f) - 2, len(f) - 1) if 0 < off + k < n]
            cands.append(off + len(f)) if off + len(f) < n else None
            off += len(f)
        cands = sorted(set(c for c in cands if c))
        cuts = sorted(rng.sample(cands, min(len(cands), rng.randint(1, 6))))
    gap = rng.choice([0.0, 0.0, G.EPS, G.TICK])
    if mode == "tail":
        gap = rng.choice([0.0, G.EPS, G.TICK, G.TICK])
    if len(cuts) <= 6 and rng.random() < 0.04:
        # a sender that pauses for a long time in the middle of a frame (nothing in the socket layer may time a frame out)
        gap = rng.choice([7.0, 45.0, 400.0])
        mode = "pause"
    return _scenario(gen, frames, cuts, gap, rng.choice([0.0, G.TICK]))


def _scenario(gen: int, frames: list[bytes], cuts: list[int], gap: float, latency: float) -> dict:
    data = b"".join(frames)
    return {
        "gen": gen, "mode": "socket", "knobs": {"latency": latency},
        "frames": [f.hex() for f in frames],
        "timeline": [
            {"at": 0.0, "op": "user.open"},
            {"at": 1.0, "op": "console.raw", "hex": data.hex(), "cuts": cuts, "gaps": [gap] * (len(cuts) + 1)},
        ],
        "end": 1.0 + gap * (len(cuts) + 2) + 2.0,
    }


_FIXED = {
    4: ["5555b080012d00084042 1a00 6180 0000 ", "5555b090021f0009ff300005312e332e33"],
    5: [],
}


def _fixed_streams():
    from ref import wire4, wire5

    s4 = [wire4.f_status(1, wire4.T_AC_STATUS, bytes.fromhex("40421a0061800000")),
          wire4.f_ext(2, wire4.X_VERSION, wire4.enc_version(False, ["1.3"], "|")),
          wire4.f_status(3, wire4.T_GROUP_STATUS, bytes.fromhex("41e41a806180"))]
    s5 = [wire5.f_cs(1, wire5.S_ZONE_STATUS, [bytes.fromhex("4080968002e70000")]),
          wire5.f_ext(2, wire5.X_ERR, bytes((0, 2)) + b"E5")]
    return {4: s4, 5: s5}


def enumerated(tier: str):
    streams = _fixed_streams()
    maxcuts = 2 if tier == "quick" else 3
    gens = [4] if tier == "quick" else [4, 5]
    for gen in gens:
        frames = streams[gen] if tier == "thorough" else streams[gen][:2]
        n = sum(len(f) for f in frames)
        for k in range(0, maxcuts + 1):
            for cuts in itertools.combinations(range(1, n), k):
                for gap in ((0.0, G.EPS) if tier == "thorough" and k <= 2 else (G.EPS,)):
                    yield _scenario(gen, frames, list(cuts), gap, 0.0)


def _deliver(sc: dict, cuts):
    sc2 = dict(sc, timeline=[dict(st) for st in sc["timeline"]])
    for st in sc2["timeline"]:
        if st["op"] == "console.raw":
            st["cuts"] = list(cuts)
            st["gaps"] = st.get("gaps", [0.0])[: len(cuts) + 1]
    w = World(sc2)
    w.console.silent = True
    w.run()
    return w


def execute(sc: dict) -> dict:
    gen = sc["gen"]
    wire = common.wire(gen)
    raw_step = next((st for st in sc["timeline"] if st["op"] == "console.raw"), None)
    if raw_step is None or not any(st["op"] == "user.open" for st in sc["timeline"]):
        w = World(sc).run()
        return common.result(w, [], nontrivial=False)
    data = bytes.fromhex(raw_step["hex"])
    cuts = [c for c in raw_step.get("cuts", []) if 0 < c < len(data)]
    w = _deliver(sc, cuts)
    base = _deliver(sc, [])
    V = []
    probes = {}
    frames, verdict, _ = wire.parse_stream(data)
    got = [m["reading"] for m in w.messages]
    ref = [m["reading"] for m in base.messages]
    if verdict == "clean":
        if len(ref) != len(frames):
            V.append(viol("C13.baseline", {"frames": len(frames), "delivered_whole": len(ref)}))
        for fr, r in zip(frames, ref):
            d = readcmp.compare(gen, wire.read(fr), r)
            if fr["type"] not in ((0x1F, 0x2A, 0x2B, 0x2C, 0x2D, 0x36, 0x37) if gen == 4 else (0x1F, 0xC0)) and any(x["cls"] != "sentinel" for x in d):
                # a frame of an unknown type is handed on as it is: its type and its bytes (field interpretation of the known
                # kinds is C05's subject, here only kind and record count are compared)
                V.append(viol("C13.baseline", {"diff": d[:3], "unknown_type": fr["type"]}))
                break
            if any(x["cls"] in ("kind", "count") for x in d):
                V.append(viol("C13.baseline", {"diff": d[:3]}))
                break
    if [repr(x) for x in got] != [repr(x) for x in ref]:
        V.append(viol("C13.segmentation_changes_result", {
            "cuts": cuts[:20], "whole": [r["kind"] for r in ref], "segmented": [r["kind"] for r in got],
            "links_segmented": len(w.net.links), "links_whole": len(base.net.links)}, more=len(got) > len(ref), fewer=len(got) < len(ref)))
    if len(w.net.links) != len(base.net.links):
        V.append(viol("C13.reset_depends_on_segmentation", {"links_segmented": len(w.net.links), "links_whole": len(base.net.links), "cuts": cuts[:20]}))
    # probes: where the cuts fall
    hl = 8 if gen == 4 else 20
    off = 0
    inside = False
    for fr in frames:
        for c in cuts:
            rel = c - off
            if 0 < rel < len(fr["raw"]):
                inside = True
                if rel < (2 if gen == 4 else 14):
                    probes["c13.cut_in_prefix"] = 1
                if hl - 2 < rel < hl:
                    probes["c13.cut_in_length"] = 1
                if rel == len(fr["raw"]) - 1:
                    probes["c13.cut_in_crc"] = 1
            if len(fr["raw"]) > 1030 and len(fr["raw"]) - 1024 < rel < len(fr["raw"]):
                probes["c13.long_frame_cut_in_tail"] = 1
        off += len(fr["raw"])
    if len(cuts) == len(data) - 1 and len(data) > 1:
        probes["c13.single_bytes"] = 1
    if len(frames) > 1 and not inside:
        probes["c13.many_frames_one_chunk"] = 1
    if any(g > 0 for g in raw_step.get("gaps", [])) and cuts:
        probes["c13.turns_between_chunks"] = 1
    if any(g >= 7.0 for g in raw_step.get("gaps", [])) and inside:
        probes["c13.long_pause_inside_frame"] = 1
    kinds = tuple(wire.read(f)["kind"] for f in frames)
    sig = []
    off = 0
    for fr in frames:
        sig.append(tuple(sorted({min(c - off, hl + 1) if c - off <= hl + 1 else (-1 if c - off >= len(fr["raw"]) - 2 else hl + 2) for c in cuts if 0 < c - off < len(fr["raw"])})))
        off += len(fr["raw"])
    res = common.result(w, V, nontrivial=inside, probes=probes, evals=2)
    res["shape"] = repr((gen, kinds, tuple(sig), bool(raw_step.get("gaps", [0])[0])))
    return res


LEVEL_TEXT = (
    "Metamorphic seeded search plus an exhaustive sub-space: every generated byte stream is delivered whole and cut, with "
    "loop turns between chunks, to the real receive path; results must be identical and agree in number and kind with the "
    "reference framing. The thorough tier enumerates all placements of <= 3 cuts for two fixed streams. Sampled evidence + "
    "exhaustive over the stated finite sub-space."
)
LEVEL_NOTE = "Trusts SimNet's chunk delivery as equivalent to what a selector transport hands to data_received, and ref/wire*.py for the expected number of frames."
TECHNIQUE = "deterministic simulation of TCP segmentation (seeded cut sets + loop turns between chunks), metamorphic comparison against whole-frame delivery; exhaustive enumeration of <=3-cut placements on fixed streams"
