"""C04 - Commands on the wire mean what the vendor protocol says."""

from __future__ import annotations

from . import apicalls, common
from .common import viol

ID = "C04"
TITLE = "Commands on the wire mean what the vendor protocol says"
LEVEL = "exploration"
RULE = (
    "closed loop against the reference console: after init() on a generated installation (AC numbers 0..3 / 0..15, zone numbers "
    "0..15, ability configurations) 4..30 public control calls per run over the quantifier grid (all enum arguments, "
    "temperatures on a 0.05 degC grid across and beyond the limits, dampers 0..100, quick timers, update check) while the "
    "console's state drifts (mode, timers, sensors); every transmitted frame is read by the independent reference decoder and "
    "compared with the reference reading of the call (intended target, exactly the requested attribute and value, everything "
    "else 'keep', addresses 0x80/0x90 from 0xB0, CRC by the bitwise reference); then the console applies it, publishes status "
    "and the getters must equal the console's report. non-trivial = at least one accepted call; distinct = (call kind, argument, "
    "generation, target) combinations"
)
COMPONENTS = common.COMPONENTS_API
ASSUMPTIONS = [
    "the reference reading of each call is ref/apispec.py (from pyairtouch/api.py docstrings, the vendor documents and the property text); ties in rounding accept both neighbours; the control-method side effect of zone set-point / damper calls may be 'keep' or the matching method",
    "AT4 0x36 timer control and the quick timer sub-messages are not in the vendor documents: judged by spec/undocumented_messages.md (records of ACs other than the addressed one are not judged)",
    "set-points that do not fit the protocol field (outside 0..250 raw on AT5, 6 bit on AT4) are not judged",
]
PROBES = ["c04.inexpressible_value", "c04.accepted_call", "c04.tie_temperature", "c04.ext_address", "c04.timer_control", "c04.closed_loop_checked"]
TRUSTED_BASE = ["ref/apispec.py", "ref/wire4.py / ref/wire5.py decoders of control frames", "spec/undocumented_messages.md for timer messages"]


def budget(tier: str) -> int:
    return 4000 if tier == "quick" else 300_000


def generate(rng, index: int, tier: str) -> dict:
    return apicalls.generate(rng, "c04")


def execute(sc: dict) -> dict:
    w, verdicts = apicalls.evaluate(sc)
    V = []
    probes = {}
    sets = set()
    if verdicts is None:
        return common.result(w, V, nontrivial=False)
    accepted = 0
    for v in verdicts:
        if "closed_loop_diffs" in v:
            d = v["closed_loop_diffs"]
            V.append(viol("C04.closed_loop", {"diffs": d}, attr=d[0]["attr"]))
            continue
        if v.get("inexpressible") and v["reachable"] and v["frames"] and not v.get("buffered"):
            # a value the wire format cannot express: the call may be refused or dropped, but a frame that sets SOME value says
            # something the caller did not ask for
            probes["c04.inexpressible_value"] = 1
            f = v["frames"][0]
            V.append(viol("C04.meaning", {"call": v["call"], "target": v["target"], "args": v["args"], "frame": f["fr"]["raw"].hex(),
                                          "reference_reading": repr(f["reading"])[:300], "why": "the requested value does not fit the protocol field; no frame can mean it"},
                          call=v["call"], gen=sc["gen"]))
            continue
        if v.get("inexpressible"):
            probes["c04.inexpressible_value"] = 1
        if not v["reachable"] or v["expect"] is None or v["expect"] != "accept":
            continue
        if v["exc"] is not None or not v["returned"]:
            continue  # refusal of an admissible request is C11's subject
        accepted += 1
        probes["c04.accepted_call"] = 1
        sets.add(repr((sc["gen"], v["call"], tuple(sorted((k, repr(x)) for k, x in v["args"].items())), v["target"][0])))
        for f, ok in zip(v["frames"], v["meaning_ok"]):
            fr = f["fr"]
            to_want = 0x90 if fr["type"] == 0x1F else 0x80
            if fr["type"] == 0x1F:
                probes["c04.ext_address"] = 1
            if f["reading"]["kind"] == "timer_control":
                probes["c04.timer_control"] = 1
            if fr["to"] != to_want or fr["frm"] != 0xB0:
                V.append(viol("C04.addresses", {"call": v["call"], "to": fr["to"], "from": fr["frm"], "type": fr["type"]}))
                break
            if not ok:
                r = {k: x for k, x in f["reading"].items()}
                V.append(viol("C04.meaning", {"call": v["call"], "target": v["target"], "args": v["args"], "frame": fr["raw"].hex(), "reference_reading": repr(r)[:400]},
                              call=v["call"], gen=sc["gen"]))
                break
        if v["call"] == "set_target_temperature":
            t = v["args"]["temperature"] * (1 if sc["gen"] == 4 else 10)
            if abs((t % 1) - 0.5) < 1e-6:
                probes["c04.tie_temperature"] = 1
        if V:
            break
    if w.console.rx_bad:
        V.append(viol("C04.malformed_frame", {"console_saw": w.console.rx_bad[:2]}))
    if any(s["op"] == "user.snapshot" for s in sc["timeline"]):
        probes["c04.closed_loop_checked"] = 1
    res = common.result(w, V, nontrivial=accepted > 0, probes=probes, evals=max(1, accepted))
    res["sets"] = {"distinct_call_argument_combinations": sorted(sets)}
    return res


LEVEL_TEXT = (
    "Seeded search over public control calls x arguments x ability configurations in a closed loop with a reference console "
    "that never uses pyairtouch's codecs: each transmitted frame is decoded by a spec-derived reference and compared with the "
    "reference meaning of the call; the console then applies the command per the document and the client's getters must follow. "
    "Sampled evidence over an input grid (fit: the simulator is the vehicle; no schedule dependence)."
)
LEVEL_NOTE = "Trusts ref/apispec.py and the reference decoders; timer messages are not independent of the project's reverse engineering."
TECHNIQUE = "deterministic simulation (closed loop client <-> reference console) with seeded input generation; reference-decoder oracle on every transmitted frame"
