"""C09 - Initialisation completes against any answering console, else fails cleanly."""

from __future__ import annotations

from harness import gen as G
from harness.world import World
from ref import console as refconsole
from ref import model as refmodel

from . import common
from .common import viol

ID = "C09"
TITLE = "Initialisation completes against any answering console, else fails cleanly"
LEVEL = "exploration"
RULE = (
    "seeded scenarios: random installation (1..4 ACs, 0..16 zones, AT4 bitmap/range/single ability format, "
    "AT5 zero-zone echo) x handshake perturbation class (clean / extra frames before+after each answer / console "
    "silent from step k / connect latency around the 5 s deadline) x segmentation x latency; a run is non-trivial "
    "when it carries extra frames, silence, a non-zero connect latency or a non-whole segmentation; distinct = "
    "distinct event-kind sequence (trace shape)"
)
COMPONENTS = common.COMPONENTS_API
ASSUMPTIONS = [
    "the simulated console follows the vendor documents (ref/console.py); real consoles may deviate",
    "extra frames of the kind a handshake step is waiting for are not injected (the client cannot tell them from the answer)",
    "consoles are self-consistent: AT4 group bitmaps and ranges only name groups that the names answer lists",
]
PROBES = ["c09.silent_after_connect_delay", "c09.silent", "c09.extras", "c09.slow_connect", "c09.zero_zones", "c09.at4_range", "c09.at4_single", "c09.multi_ac"]


STRUCTURAL = {
    "air_conditioners", "zones", "ac_id", "zone_id", "name", "supported_modes", "supported_fan_speeds",
    "supported_power_controls", "initialised", "model", "console_versions", "update_available",
}


def budget(tier: str) -> int:
    return 6000 if tier == "quick" else 400_000


def _extra_frames(rng, gen: int, inst: dict, awaited: set[str]) -> list[str]:
    """Frames (hex) that a handshake step must ignore."""
    con = refconsole.Console(None, inst, None)
    w = common.wire(gen)
    out = []
    n = rng.choice([1, 1, 2, 3])
    for _ in range(n):
        kind = rng.choice(["version", "names", "ability", "ac_status", "timer", "zone_status", "unknown_type", "unknown_sub", "foreign_ctrl", "foreign_status"])
        pid = rng.randint(0, 255)
        if kind == "version" and "version" not in awaited:
            out.append(con.f_version(pid))
        elif kind == "names" and "names" not in awaited and inst["zones"]:
            out.append(con.f_names(pid))
        elif kind == "ability" and "ability" not in awaited:
            out.append(con.f_ability(pid))
        elif kind == "ac_status" and "ac_status" not in awaited:
            out.append(con.f_ac_status(pid))
        elif kind == "timer" and "timer_status" not in awaited:
            out.append(con.f_timer_status(pid))
        elif kind == "zone_status" and "zone_status" not in awaited and inst["zones"]:
            out.append(con.f_zone_status(pid))
        elif kind == "unknown_type":
            t = rng.choice([0x00, 0x01, 0x2E, 0x35, 0x38, 0x99, 0xC1, 0xFF, 0x20])
            if gen == 5 and t in (0xC0, 0x1F):
                t = 0x99
            data = bytes(rng.randrange(256) for _ in range(rng.choice([0, 1, 4, 9, 40])))
            out.append(w.frame(w.ADDR_CLIENT, w.ADDR_CONSOLE, pid, t, data))
        elif kind == "unknown_sub":
            if gen == 5 and rng.random() < 0.5:
                payload = bytes(rng.randrange(256) for _ in range(rng.choice([0, 3, 8])))
                out.append(w.frame(w.ADDR_CLIENT, w.ADDR_CONSOLE, pid, 0xC0, w.sub_header(rng.choice([0x10, 0x24, 0x45, 0xFE]), len(payload), 0, 0) + payload))
            else:
                payload = bytes(rng.randrange(256) for _ in range(rng.choice([0, 1, 5, 20])))
                out.append(w.f_ext(pid, rng.choice([0xFF01, 0xFF14, 0xFF31, 0xFE11, 0x0000]), payload))
        elif kind == "foreign_ctrl":
            # a control frame from another client, echoed on the bus
            if gen == 4:
                data = bytes((rng.randint(0, 3), rng.choice([0x40, 0x1F, 0xFF]), 0x3F, 0))
                out.append(w.frame(0x80, 0xB1, pid, 0x2C, data))
            else:
                rec = bytes((rng.randint(0, 3) | 0x20, 0xFF, 0x00, 0xFF))
                out.append(w.frame(0x80, 0xB1, pid, 0xC0, w.sub_header(0x22, 0, 4, 1) + rec))
        elif kind == "foreign_status" and "ac_status" not in awaited:
            raw = con.f_ac_status(pid)
            fr = w.parse_stream(raw)[0][0]
            out.append(w.frame(0xB7, fr["frm"], pid, fr["type"], fr["data"]))
    return [f.hex() for f in out]


_ANSWER_KIND = {
    "version_request": "version", "names_request": "names", "ability_request": "ability",
    "ac_status_request": "ac_status", "timer_status_request": "timer_status",
    "group_status_request": "zone_status", "zone_status_request": "zone_status",
}


def generate(rng, index: int, tier: str) -> dict:
    gen = rng.choice([4, 5])
    # AT4 with zero groups is not generated: the document's names / group status
    # answers would carry no data and be indistinguishable from the requests.
    inst = G.installation(rng, gen, allow_zero_zones=(gen == 5))
    knobs = G.knobs(rng)
    knobs["latency"] = rng.choice([0.0, G.TICK, 2.0**-7, 2.0**-5, 2.0**-4])
    cls = rng.choice(["clean", "extras", "extras", "silent", "silent", "slow", "delay"])
    hs = common.handshake(gen)
    tl = []
    t0 = G.dyadic(rng, 0.0, 2.0)
    expect = {"class": cls, "t0": t0}
    if cls == "extras":
        for i, req in enumerate(hs):
            if rng.random() < 0.6:
                awaited_now = {_ANSWER_KIND[req]}
                awaited_next = {_ANSWER_KIND[hs[i + 1]]} if i + 1 < len(hs) else set()
                tl.append({"at": 0.0, "op": "console.extras", "kind": req,
                           "before": _extra_frames(rng, gen, inst, awaited_now) if rng.random() < 0.7 else [],
                           "after": _extra_frames(rng, gen, inst, awaited_now | awaited_next) if rng.random() < 0.7 else []})
    elif cls == "silent":
        k = rng.randrange(len(hs))
        expect["silent_step"] = k
        tl.append({"at": 0.0, "op": "console.mute", "kinds": hs[k:] if rng.random() < 0.5 else [hs[k]]})
        r = rng.random()
        if r < 0.35:
            # ... behind a connection that took its time: the five seconds still count from the init() call
            knobs["fates"] = [{"kind": "accept", "latency": rng.choice([0.125, 0.5, 1.5, 3.0, 4.5])}]
            expect["silent_after_connect_delay"] = True
        elif r < 0.5:
            knobs["fates"] = [{"kind": rng.choice(["refuse", "unreachable"]), "latency": rng.choice([0.0, 0.125])}, {"kind": "accept", "latency": rng.choice([0.0, 0.5])}]
            expect["silent_after_connect_delay"] = True
    elif cls == "slow":
        lat = G.pick_time(rng, 3.0, 8.0, anchors=[5.0])
        # keep a margin around the deadline: the verdict hinges on which side
        if abs(lat - 5.0) < 0.75:
            lat = 5.0 + 0.75 if lat >= 5.0 else 5.0 - 0.75 - 6 * (2 * knobs["latency"])
        knobs["fates"] = [{"kind": "accept", "latency": lat}]
        expect["connect_latency"] = lat
    elif cls == "delay":
        d = rng.choice([0.0625, 0.25, 0.5])
        tl.append({"at": 0.0, "op": "console.delay", "delay": d})
        expect["delay"] = d
    if rng.random() < 0.2 and cls in ("clean", "extras"):
        knobs["fates"] = [{"kind": rng.choice(["refuse", "unreachable"]), "latency": rng.choice([0.0, 0.125])}]
        expect["refused_first"] = True
    tl.append({"at": t0, "op": "user.init", "yields": rng.choice([0, 0, 1, 3])})
    tl.append({"at": t0 + 12.0, "op": "user.snapshot", "label": "after-init"})
    tl.append({"at": t0 + 13.0, "op": "user.shutdown"})
    return {"gen": gen, "mode": "api", "installation": inst, "knobs": knobs, "timeline": tl, "end": t0 + 14.0, "expect_class": expect}


def execute(sc: dict) -> dict:
    w = World(sc).run()
    gen = sc["gen"]
    exp = sc["expect_class"]
    cls = exp["class"]
    t0 = exp["t0"]
    V = []
    probes = {}
    cross_dyn = {}
    inst = sc["installation"]
    if cls == "silent":
        probes["c09.silent"] = 1
    if exp.get("silent_after_connect_delay"):
        probes["c09.silent_after_connect_delay"] = 1
    if cls == "extras":
        probes["c09.extras"] = 1
    if cls == "slow":
        probes["c09.slow_connect"] = 1
    if gen == 5 and not inst["zones"]:
        probes["c09.zero_zones"] = 1
    if gen == 4 and inst.get("ability_format") == "range":
        probes["c09.at4_range"] = 1
    if gen == 4 and inst.get("ability_format") == "single":
        probes["c09.at4_single"] = 1
    if len(inst["acs"]) > 1:
        probes["c09.multi_ac"] = 1

    init = next((c for c in w.calls if c["op"] == "user.init"), None)
    if init is None:
        return common.result(w, V, nontrivial=False, probes=probes)  # minimiser removed the call
    hs = common.handshake(gen)
    lat = sc["knobs"].get("latency", 2.0**-7)
    if w.verdict == "stepcap":
        V.append(viol("C09.hang", {"why": "step cap reached", "steps": w.loop.steps}))
    elif init["t_ret"] is None:
        V.append(viol("C09.hang", {"why": "init() never returned", "t_call": init["t_call"]}))
    elif init["exc"] is not None:
        V.append(viol("C09.raise", {"exc": repr(init["exc"])}))
    else:
        # what must the outcome be?
        fates = sc["knobs"].get("fates", [])
        connect_lat = 0.0
        for f in fates:
            if f["kind"] == "accept":
                connect_lat += f["latency"]
                break
            connect_lat += f["latency"] + 2.0  # failed attempt: retried after 2 s
        tx_bytes = sum(len(x["raw"]) for x in w.console.tx if x["t"] <= init["t_ret"])
        budget_needed = connect_lat + 6 * (2 * lat + exp.get("delay", 0.0)) + 0.05 + sc["knobs"].get("chunk_gap", 0.0) * tx_bytes
        silent = cls == "silent"
        should_succeed = (not silent) and budget_needed < 5.0 - 0.25
        should_fail = silent or connect_lat > 5.0 + 0.25
        dur = init["t_ret"] - init["t_call"]
        if should_succeed:
            if init["result"] is not True:
                V.append(viol("C09.init_false", {"result": init["result"], "dur": dur, "needed": budget_needed, "class": cls}, gen=gen))
            elif dur > budget_needed + 0.05:
                V.append(viol("C09.init_late", {"dur": dur, "needed": budget_needed}))
        elif should_fail:
            if init["result"] is not False:
                V.append(viol("C09.init_true_on_silence", {"result": init["result"], "class": cls}))
            elif abs(dur - 5.0) > 0.05:
                V.append(viol("C09.fail_time", {"dur": dur}))
        # order of the six requests, one at a time
        t_ret = init["t_ret"]
        window = [e for e in w.console.rx if e["t"] <= t_ret + lat]
        six = [e for e in window if e["reading"]["kind"] in hs]
        first_conn_six = six
        kinds = [e["reading"]["kind"] for e in first_conn_six]
        # heartbeat (version_request) may follow the last step
        core = kinds[: len(hs)]
        if core != hs[: len(core)] or (init["result"] is True and len(core) < len(hs)):
            V.append(viol("C09.request_order", {"seen": kinds, "want": hs}))
        if init["result"] is True:
            extra = kinds[len(hs):]
            if any(k != "version_request" for k in extra):
                V.append(viol("C09.request_repeated", {"seen": kinds}))
            # one at a time: request k+1 reaches the console only after answer k was sent
            for a, b in zip(first_conn_six, first_conn_six[1: len(hs)]):
                answered = [x for x in w.console.answered if x[0] == a["reading"]["kind"] and x[1] <= b["t"]]
                if not answered:
                    V.append(viol("C09.not_one_at_a_time", {"request": b["reading"]["kind"], "before_answer_to": a["reading"]["kind"]}))
                    break
            # structure and state
            snap = next((s for (_t, lbl, s) in w.snapshots if lbl == "after-init"), None)
            if snap is not None:
                m = refmodel.Model(gen, inst, common.META)
                common.feed_model(w, m)
                diffs = refmodel.compare(m.expected(), snap)
                structural = [d for d in diffs if d["attr"] in STRUCTURAL]
                if structural:
                    d0 = structural[0]
                    V.append(viol("C09.model", {"diffs": structural[:6], "n": len(structural)}, gen=gen, attr=d0["attr"]))
                for d in diffs:
                    if d["attr"] not in STRUCTURAL:
                        cross_dyn["C10-like getter difference after init: " + d["attr"]] = cross_dyn.get("C10-like getter difference after init: " + d["attr"], 0) + 1
        else:
            snap = next((s for (_t, lbl, s) in w.snapshots if lbl == "after-init"), None)
            if should_fail and snap is not None and snap.get("initialised") is not False and silent:
                V.append(viol("C09.initialised_after_failure", {"initialised": snap.get("initialised")}))
    nontrivial = cls != "clean" or sc["knobs"].get("seg", {}).get("mode", "whole") != "whole"
    cross = dict(cross_dyn)
    if w.final.get("exceptions"):
        cross["loop_exception_handler_called"] = len(w.final["exceptions"])
    return common.result(w, V, nontrivial=nontrivial, probes=probes, cross=cross)


def shrink(sc: dict):
    """Installation shrinking for the minimiser."""
    inst = sc["installation"]
    if len(inst["zones"]) > 0:
        for i in range(len(inst["zones"])):
            z = inst["zones"][i]["zone"]
            ni = dict(inst, zones=inst["zones"][:i] + inst["zones"][i + 1:])
            if inst["gen"] == 4:
                ni["acs"] = [dict(a, groups=[g for g in a["groups"] if g != z]) if a.get("groups") is not None else a for a in inst["acs"]]
                if inst.get("ability_format") == "range":
                    continue
            else:
                if i != len(inst["zones"]) - 1:
                    continue
                ni["acs"] = [dict(a, zone_count=max(0, min(a["zone_count"], z - a["start_zone"]))) for a in inst["acs"]]
            yield dict(sc, installation=ni)
    if len(inst["acs"]) > 1 and inst.get("ability_format") != "range":
        for i in range(len(inst["acs"])):
            yield dict(sc, installation=dict(inst, acs=inst["acs"][:i] + inst["acs"][i + 1:]))


LEVEL_TEXT = (
    "Seeded search over handshake histories: thousands of generated installations and console behaviours are run "
    "against the real init() state machine on a virtual-time loop; the order of requests, the 5 s deadline, the clean "
    "failure and the resulting object structure are checked against a reference console written from the vendor "
    "documents. Evidence of absence of violations on the sampled space, not a proof."
)
LEVEL_NOTE = "Trusts ref/console.py and ref/wire*.py as the reading of the vendor documents and sim/net.py as a model of the selector transport (validated by ./check --selftest against a real loop-back socket)."
TECHNIQUE = "deterministic simulation (virtual-time asyncio loop, simulated console) with seeded scenario search and fault injection (silence, connect latency/refusal, extra frames, segmentation)"
