"""C06 - Checksum is CRC-16/MODBUS; damaged frames are never delivered."""

from __future__ import annotations

import random
import zlib

from harness import framegen
from harness import gen as G
from harness.world import World
from ref import crc as refcrc

from . import common, readcmp
from .common import viol

ID = "C06"
TITLE = "Checksum is CRC-16/MODBUS; damaged frames are never delivered"
LEVEL = "fault_enumeration"
RULE = (
    "fault enumeration on the inbound stream: for one sample frame of every status/answer kind per generation, every single-bit "
    "flip at every bit position of prefix, outer lengths (AT5), covered bytes and check bytes; all double-bit flips within a "
    "32-bit window (thorough: every pair on two frames); bursts of 2..16 bits at every offset with random interior; error patterns "
    "confined to the two check bytes (swapped, one byte repeated, complemented, constants, random; thorough: all 65535 on one frame); the "
    "single-bit flips again with the intact original delivered just before (same connection / previous connection of the same socket); plus seeded "
    "random frames / corruptions. Each corruption is one simulated run: [intact A][damaged][intact B] -> FIN -> probe on the "
    "re-established connection. Clause 1 (the function): the console checks every client frame's CRC with a bitwise reference "
    "and, as supporting non-simulation evidence, calculate() is compared with the reference on all 1- and 2-byte strings "
    "(every table entry and every (register low byte, input byte) step). non-trivial = every corruption run; distinct = (frame kind, damaged bit set)"
)
COMPONENTS = {
    "real": ["pyairtouch.comms.crc16.Crc16Modbus", "AirTouchSocket read loop / reset / reconnect", "header decoders (checksum span)", "asyncio streams"],
    "stub": ["clock/_run_once", "TCP delivery with bit corruption (SimNet)", "console = byte source + CRC verifier of client frames"],
}
ASSUMPTIONS = [
    "the error patterns enumerated are those CRC-16 detects by construction (1 bit, 2 bits, bursts <= 16 bits) on frames far shorter than 32767 bits; a burst is contiguous in the CRC's own codeword order (least significant bit of each byte first; register low byte before high byte, whereas the frame carries the high check byte first)",
    "the two pad bytes of the undocumented AT5 outer header are not 'covered bytes' and are not corrupted",
    "the exhaustive 1..2-byte comparison of calculate() is a plain function comparison, not simulation; the 3-byte enumeration and the induction on length of the property text are not reproduced",
]
PROBES = ["c06.single_bit", "c06.double_bit", "c06.burst", "c06.check_bytes_only", "c06.after_intact_original", "c06.special_register_frame", "c06.intact_special_register", "c06.prefix_valued_address", "c06.prefix_like_payload", "c06.second_socket_interleaved", "c06.header_only_frame", "c06.special_final_check_value", "c06.long_frame", "c06.in_prefix", "c06.in_length", "c06.in_crc", "c06.in_payload", "c06.waited_for_bytes", "c06.function_audit"]
EXHAUSTIVE = True
TRUSTED_BASE = ["ref/crc.py (bitwise CRC-16/MODBUS)", "ref/wire4.py, ref/wire5.py (framing)"]


def budget(tier: str) -> int:
    return 6000 if tier == "quick" else 300_000


def _samples(gen: int):
    rng = random.Random(1000 + gen)
    kinds = framegen.KINDS4 if gen == 4 else framegen.KINDS5
    return [(k, framegen.frame(rng, gen, k, pid=0x21)[0]) for k in kinds]


def _scenario(gen: int, kind: str, frame: bytes, bits: list[int], pattern: str, with_neighbours: bool = True, seg=None, history: str = "none") -> dict:
    """history: what the client has seen before the damaged frame - "none"; "same_before": the very same frame, intact,
    directly in front of it on the same connection (a console repeats its status frames verbatim); "same_prev_conn": the
    intact frame on an earlier connection of the same socket object."""
    damaged = bytearray(frame)
    for b in bits:
        damaged[b // 8] ^= 0x80 >> (b % 8)
    rng = random.Random(zlib.crc32(repr((gen, kind, tuple(bits))).encode()))
    a = framegen.frame(rng, gen, "version", pid=0x11)[0] if with_neighbours else b""
    if history == "same_before":
        a = a + bytes(frame)
    b2 = framegen.frame(rng, gen, "error_info", pid=0x12)[0] if with_neighbours else b""
    probe = framegen.frame(rng, gen, "version", pid=0x13)[0]
    data = a + bytes(damaged) + b2
    tl = [{"at": 0.0, "op": "user.open"}]
    if history == "same_prev_conn":
        tl += [{"at": 0.25, "op": "console.raw", "hex": bytes(frame).hex()}, {"at": 0.5, "op": "net.fin"}]
    tl += [
        {"at": 1.0, "op": "console.raw", "hex": data.hex(), "input": True},
        {"at": 2.0, "op": "net.fin"},
        {"at": 6.0, "op": "console.raw", "hex": probe.hex(), "probe": True},
    ]
    return {
        "gen": gen, "mode": "socket", "knobs": {"latency": 0.0, "seg": seg or {"mode": "whole"}},
        "timeline": tl,
        "end": 8.0,
        "info": {"kind": kind, "bits": bits, "pattern": pattern, "a_len": len(a), "frame_len": len(frame), "history": history},
    }


def _scenario_interleaved(gen: int, kind: str, frame: bytes, bits: list[int]) -> dict:
    """The damaged frame reaches the socket in two segments (header, then the rest); between the two a second socket of the
    same generation in the same process (they share the message registry) receives the intact twin of that frame."""
    damaged = bytearray(frame)
    for b in bits:
        damaged[b // 8] ^= 0x80 >> (b % 8)
    hl = 8 if gen == 4 else 20
    rng = random.Random(zlib.crc32(repr((gen, kind, tuple(bits), "il")).encode()))
    probe = framegen.frame(rng, gen, "version", pid=0x13)[0]
    tl = [{"at": 0.0, "op": "user.open"}, {"at": 0.0, "op": "user.second_socket"},
          {"at": 1.0, "op": "console.raw", "hex": bytes(damaged).hex(), "input": True, "cuts": [hl], "gaps": [0.0, 0.25]},
          {"at": 1.125, "op": "console2.raw", "hex": bytes(frame).hex()},
          {"at": 2.0, "op": "net.fin"},
          {"at": 6.0, "op": "console.raw", "hex": probe.hex(), "probe": True}]
    return {"gen": gen, "mode": "socket", "knobs": {"latency": 0.0, "seg": {"mode": "whole"}}, "timeline": tl, "end": 8.0,
            "info": {"kind": kind, "bits": bits, "pattern": "single", "a_len": 0, "frame_len": len(frame), "history": "none", "interleaved": True}}


def _lsb(p: int, n_bytes: int = 0) -> int:
    """Position p in the CRC's own codeword order -> index in the most-significant-bit-first wire numbering the scenarios use.
    The codeword of CRC-16/MODBUS (a reflected CRC) is: the covered bytes in sequence, then the register's LOW byte, then its
    HIGH byte, each byte least significant bit first.  The AirTouch frame carries the two check bytes HIGH byte first, i.e.
    swapped with respect to the codeword.  A burst is contiguous in codeword order; only then is its detection guaranteed
    (a run of wire bits that straddles the last payload byte and the check bytes can span 24 codeword bits)."""
    byte = p // 8
    if n_bytes and byte >= n_bytes - 2:
        byte = (n_bytes - 2) + (n_bytes - 1) - byte  # low <-> high check byte
    return byte * 8 + (7 - p % 8)


def _positions(gen: int, n_bytes: int):
    """Bit positions eligible for corruption (everything except the AT5 pad bytes)."""
    skip = set(range(4 * 8, 6 * 8)) if gen == 5 else set()
    return [b for b in range(n_bytes * 8) if b not in skip]


_special_cache = {}


def _special_frames(gen: int):
    """Well-formed frames whose CRC register, after the covered header bytes, holds 0x0000 or 0xFFFF (the states in which a
    receiver that checks header and payload in two steps, or restarts the register, goes wrong).  Found by search over
    packet id x payload length x (unknown) message type."""
    if gen in _special_cache:
        return _special_cache[gen]
    w = common.wire(gen)
    rng = random.Random(4242 + gen)
    known = {0x1F, 0x2A, 0x2B, 0x2C, 0x2D, 0x36, 0x37} if gen == 4 else {0x1F, 0xC0}
    table = []
    for i in range(256):
        r = i
        for _ in range(8):
            r = (r >> 1) ^ 0xA001 if r & 1 else r >> 1
        table.append(r)

    def reg_of(bs):
        r = 0xFFFF
        for x in bs:
            r = (r >> 8) ^ table[(r ^ x) & 0xFF]
        return r

    found = {}
    types = [x for x in (0x01, 0x10, 0x33, 0x44, 0x5A, 0x77, 0x99, 0xEE, 0x02, 0x21, 0x48, 0x63, 0x81, 0xA5, 0xD2, 0xF0) if x not in known]
    for length in range(0, 200):
        for t in types:
            for pid in range(256):
                reg = reg_of((w.ADDR_CLIENT, w.ADDR_CONSOLE, pid, t, length >> 8, length & 0xFF))
                if reg in (0x0000, 0xFFFF) and reg not in found:
                    payload = bytes(rng.randrange(256) for _ in range(length))
                    fr = w.frame(w.ADDR_CLIENT, w.ADDR_CONSOLE, pid, t, payload)
                    off = 2 if gen == 4 else 14
                    assert refcrc.crc_bytes(fr[off:off + 6]) == reg.to_bytes(2, "big")
                    found[reg.to_bytes(2, "big")] = fr
            if len(found) == 2:
                break
        if len(found) == 2:
            break
    out = [("reg%s" % k.hex(), v) for k, v in sorted(found.items())]
    # frames whose FINAL check value is a special one (0x0000, 0xFFFF, equal bytes, one zero byte): a receiver that treats
    # "expected value is zero / falsy" or compares the two bytes loosely goes wrong exactly here. Found by search over the
    # last two payload bytes.
    want = {0x0000: "crc0000", 0xFFFF: "crcffff", 0x5555: "crc5555", 0x00A7: "crc00a7", 0xA700: "crca700"}
    head = bytes(rng.randrange(256) for _ in range(10))
    hdr = (w.ADDR_CLIENT, w.ADDR_CONSOLE, 0x33, types[1], 0, 12)
    base = reg_of(bytes(hdr) + head)
    got_final = {}
    for a in range(256):
        r1 = (base >> 8) ^ table[(base ^ a) & 0xFF]
        for b in range(256):
            r2 = (r1 >> 8) ^ table[(r1 ^ b) & 0xFF]
            if r2 in want and r2 not in got_final:
                got_final[r2] = head + bytes((a, b))
    for val, nm in sorted(want.items()):
        if val in got_final:
            fr = w.frame(w.ADDR_CLIENT, w.ADDR_CONSOLE, 0x33, types[1], got_final[val])
            assert fr[-2:] == val.to_bytes(2, "big"), (fr[-2:].hex(), hex(val))
            out.append((nm, fr))
    # header-only frames (no payload: the check value covers the six header bytes alone) - of an unknown type, so that they
    # are delivered - and one of them with a special check value
    out.append(("empty", w.frame(w.ADDR_CLIENT, w.ADDR_CONSOLE, 0x34, types[2], b"")))
    done = False
    for t in types:
        for pid in range(256):
            if reg_of((w.ADDR_CLIENT, w.ADDR_CONSOLE, pid, t, 0, 0)) == 0xFFFF:
                out.append(("emptyffff", w.frame(w.ADDR_CLIENT, w.ADDR_CONSOLE, pid, t, b"")))
                done = True
                break
        if done:
            break
    # covered bytes that look like the frame prefix: frames for another client (the console forwards them) whose
    # destination / source address is 0x55 or 0xAA - the span the CRC covers still starts at the address byte
    pay = bytes(rng.randrange(256) for _ in range(12))
    for (to, frm) in ((0x55, w.ADDR_CONSOLE), (0xAA, w.ADDR_CONSOLE), (0x55, 0x55), (w.ADDR_CLIENT, 0xAA)):
        out.append(("addr%02x%02x" % (to, frm), w.frame(to, frm, 0x31, types[0], pay)))
    # prefix-like byte runs inside the covered bytes (a name of three 'U's followed by its padding; the redundant-byte rule of
    # the AT5 document, 55 55 55 00, is not applied by this framing: every byte between address and check bytes counts)
    for name, body in (("stuff00", b"\x01\x55\x55\x55\x00\x02"), ("stuffaa", b"\x55\x55\x55\xaa\x80\xb0"), ("stuffab", b"\x03\x55\x55\x55\xab\x00\x00")):
        out.append(("pre" + name, w.frame(w.ADDR_CLIENT, w.ADDR_CONSOLE, 0x32, types[0], body + pay[:3])))
    _special_cache[gen] = out
    return _special_cache[gen]


def _check_byte_patterns(fr: bytes, rng=None, exhaustive: bool = False):
    """Error patterns confined to the two check bytes (bursts <= 16 bits): what a receiver that is lenient about byte
    order, initial value or one of the two bytes would let through."""
    hi, lo = fr[-2], fr[-1]
    cands = {
        "swap": (lo, hi), "hi_twice": (hi, hi), "lo_twice": (lo, lo), "complement": (hi ^ 0xFF, lo ^ 0xFF), "zero": (0, 0), "ones": (0xFF, 0xFF),
        "hi_only_wrong": (hi ^ 0x5A, lo), "lo_only_wrong": (hi, lo ^ 0xA5), "plus_one": (((hi << 8 | lo) + 1 >> 8) & 0xFF, (lo + 1) & 0xFF),
    }
    out = []
    for name, (a, b) in sorted(cands.items()):
        x = ((hi ^ a) << 8) | (lo ^ b)
        if x:
            out.append((name, x))
    if exhaustive:
        out += [("cb%04x" % x, x) for x in range(1, 65536)]
    elif rng is not None:
        out += [("cb%04x" % x, x) for x in (rng.randrange(1, 65536) for _ in range(24))]
    for name, x in out:
        base = (len(fr) - 2) * 8
        yield name, [base + i for i in range(16) if x & (0x8000 >> i)]


def enumerated(tier: str):
    for gen in (4, 5):
        # frames with a special CRC register value at the header / payload boundary: intact they must be delivered,
        # damaged they must not
        for name, fr in _special_frames(gen):
            pos = _positions(gen, len(fr))
            for nb in (False, True):
                yield _scenario(gen, "unknown:" + name, fr, [], "intact", with_neighbours=nb)
            for b in pos:
                yield _scenario(gen, "unknown:" + name, fr, [b], "single", with_neighbours=(b % 4 == 0))
            for pname, bits in _check_byte_patterns(fr, random.Random(99), exhaustive=False):
                yield _scenario(gen, "unknown:" + name, fr, bits, "checkbytes", with_neighbours=False)
        # long frames (payload 1019 / 1500 / 2600 bytes): a spread of single flips, the check bytes, flips next to the ends
        for size in ((1500,) if tier == "quick" else (1019, 1500, 2600)):
            fr = framegen.long_frame(random.Random(size + gen), gen, pid=0x22, size=size)[0]
            pos = _positions(gen, len(fr))
            step = max(1, len(pos) // (48 if tier == "quick" else 400))
            for b in sorted(set(pos[::step]) | set(pos[:8]) | set(pos[-24:])):
                yield _scenario(gen, "long:%d" % size, fr, [b], "single", with_neighbours=(b % 2 == 0))
            for pname, bits in _check_byte_patterns(fr, random.Random(size), exhaustive=False):
                yield _scenario(gen, "long:%d" % size, fr, bits, "checkbytes", with_neighbours=False)
            yield _scenario(gen, "long:%d" % size, fr, [], "intact", with_neighbours=True)
        samples = _samples(gen)
        # a second socket of the same generation decodes the intact twin while the damaged frame is half received
        hl_ = 8 if gen == 4 else 20
        for (kind, fr) in samples[: (2 if tier == "quick" else len(samples))]:
            for b in [p for p in _positions(gen, len(fr)) if p // 8 < hl_ - 2]:
                yield _scenario_interleaved(gen, kind, fr, [b])
            yield _scenario_interleaved(gen, kind, fr, [])
        for i, (kind, fr) in enumerate(samples):
            # the check bytes alone: order, single byte, constants (every sample), every 16-bit pattern (thorough, one sample)
            for name, bits in _check_byte_patterns(fr, random.Random(31 * gen + i), exhaustive=(tier == "thorough" and i == 0)):
                yield _scenario(gen, kind, fr, bits, "checkbytes", with_neighbours=(i % 2 == 0))
            pos = _positions(gen, len(fr))
            # every single-bit flip
            for b in pos:
                yield _scenario(gen, kind, fr, [b], "single")
            # the same flips when the client has just accepted the intact original (same header, same check bytes)
            if i < (3 if tier == "quick" else len(samples)):
                for b in pos:
                    yield _scenario(gen, kind, fr, [b], "single", history="same_before" if b % 2 == 0 else "same_prev_conn", with_neighbours=(b % 3 == 0))
            # double-bit flips
            if tier == "thorough" and i < 2:
                for x in range(len(pos)):
                    for y in range(x + 1, len(pos)):
                        yield _scenario(gen, kind, fr, [pos[x], pos[y]], "double", with_neighbours=False)
            elif i < (2 if tier == "quick" else len(samples)):
                for x in range(len(pos)):
                    for y in range(x + 1, min(len(pos), x + 32)):
                        yield _scenario(gen, kind, fr, [pos[x], pos[y]], "double", with_neighbours=False)
            # bursts: first and last bit flipped, random interior, at every offset
            if i < (2 if tier == "quick" else len(samples)):
                rng = random.Random(7 * gen + i)
                for start in range(0, len(fr) * 8 - 1):
                    for blen in ((2, 16) if tier == "quick" else (2, 3, 5, 8, 11, 16)):
                        end = start + blen - 1
                        if end >= len(fr) * 8:
                            continue
                        nb = len(fr)
                        bits = [_lsb(start, nb), _lsb(end, nb)] + [_lsb(b, nb) for b in range(start + 1, end) if rng.random() < 0.5]
                        bits = [b for b in bits if b in set(pos)]
                        if len(bits) >= 1:
                            yield _scenario(gen, kind, fr, sorted(set(bits)), "burst", with_neighbours=False)


def generate(rng, index: int, tier: str) -> dict:
    gen = rng.choice([4, 5])
    fr, kind = framegen.frame(rng, gen)
    if rng.random() < 0.06:
        # far longer than everyday traffic (16-bit length field); <= 2600 bytes keeps every double-bit pattern inside the
        # span for which CRC-16 guarantees detection (32767 bits)
        fr, kind = framegen.long_frame(rng, gen, size=rng.choice([s for s in framegen.LONG_SIZES if s <= 2600]))
        kind = "long:" + kind
    pos = _positions(gen, len(fr))
    pattern = rng.choice(["single", "double", "double", "burst", "burst", "checkbytes"])
    if pattern == "checkbytes":
        pats = list(_check_byte_patterns(fr, rng))
        bits = rng.choice(pats)[1]
    elif pattern == "single":
        bits = [rng.choice(pos)]
    elif pattern == "double":
        bits = sorted(rng.sample(pos, 2))
    else:
        blen = rng.randint(2, 16)
        start = rng.randrange(0, len(fr) * 8 - blen + 1)
        nb = len(fr)
        bits = sorted({_lsb(start, nb), _lsb(start + blen - 1, nb)} | {_lsb(b, nb) for b in range(start + 1, start + blen - 1) if rng.random() < 0.5})
        bits = [b for b in bits if b in set(pos)] or [rng.choice(pos)]
    seg = rng.choice([{"mode": "whole"}, {"mode": "random", "seed": rng.getrandbits(16), "max": 5}])
    return _scenario(gen, kind, fr, bits, pattern, with_neighbours=rng.random() < 0.7, seg=seg, history=rng.choice(["none", "none", "same_before", "same_prev_conn"]))


_audit_done = {}


def _function_audit(tier: str):
    """calculate()/validate() vs the bitwise reference on all short strings (supporting evidence)."""
    if tier in _audit_done:
        return _audit_done[tier]
    import pyairtouch.comms.crc16 as pc

    calc = pc.Crc16Modbus()
    bad = []
    n = 0
    for a in range(256):
        s = bytes((a,))
        n += 1
        if calc.calculate(s) != refcrc.crc_bytes(s):
            bad.append(s.hex())
    if calc.calculate(b"") != refcrc.crc_bytes(b""):
        bad.append("")
    for a in range(256):
        for b in range(256):
            s = bytes((a, b))
            n += 1
            if calc.calculate(s) != refcrc.crc_bytes(s):
                bad.append(s.hex())
                break
    for a in range(256):
        for b in range(0, 256, 5):
            s = bytes((a, b, a ^ b))
            good = refcrc.crc_bytes(s)
            n += 1
            if not calc.validate(s, good):
                bad.append("validate rejects " + s.hex())
                break
            for wrong in (good[::-1], bytes((good[0], good[0])), bytes((good[1], good[1])), bytes((good[0] ^ 0xFF, good[1] ^ 0xFF)), bytes((good[0], good[1] ^ 1))):
                if wrong != good and calc.validate(s, wrong):
                    bad.append("validate accepts " + s.hex() + "+" + wrong.hex())
                    break
    s = bytes(range(256)) * 3
    if calc.calculate(s) != refcrc.crc_bytes(s) or not calc.validate(s, refcrc.crc_bytes(s)) or calc.validate(s, b"\0\0"):
        bad.append("long")
    _audit_done[tier] = (n, bad[:5])
    return _audit_done[tier]


def execute(sc: dict) -> dict:
    gen = sc["gen"]
    wire = common.wire(gen)
    info = sc.get("info", {})
    w = World(sc)
    w.console.silent = True
    w.run()
    V = []
    probes = {}
    inp = next((st for st in sc["timeline"] if st.get("input")), None)
    prb = next((st for st in sc["timeline"] if st.get("probe")), None)
    opened = any(c["op"] == "user.open" and c["t_call"] is not None for c in w.calls)
    if inp is None or not opened:
        return common.result(w, V, nontrivial=False)
    data = bytes.fromhex(inp["hex"])
    frames, verdict, consumed = wire.parse_stream(data)
    t_in, t_pr = inp["at"], (prb["at"] if prb else 1e9)
    got = [m for m in w.messages if t_in <= m["t"] < t_pr]
    pattern = info.get("pattern", "?")
    probes["c06." + {"single": "single_bit", "double": "double_bit", "burst": "burst", "checkbytes": "check_bytes_only", "intact": "intact_special_register"}.get(pattern, "single_bit")] = 1
    if str(info.get("kind", "")).startswith("unknown:reg"):
        probes["c06.special_register_frame"] = 1
    if str(info.get("kind", "")).startswith("unknown:addr"):
        probes["c06.prefix_valued_address"] = 1
    if str(info.get("kind", "")).startswith("unknown:pre"):
        probes["c06.prefix_like_payload"] = 1
    if str(info.get("kind", "")).startswith("unknown:crc"):
        probes["c06.special_final_check_value"] = 1
    if str(info.get("kind", "")).startswith("unknown:empty"):
        probes["c06.header_only_frame"] = 1
    if info.get("interleaved"):
        probes["c06.second_socket_interleaved"] = 1
    if str(info.get("kind", "")).startswith("long:") and info.get("frame_len", 0) > 1040:
        probes["c06.long_frame"] = 1
    hl = 8 if gen == 4 else 20
    pre = 2 if gen == 4 else 14
    for b in info.get("bits", []):
        byte = b // 8
        if byte < pre:
            probes["c06.in_prefix"] = 1
        elif hl - 2 <= byte < hl:
            probes["c06.in_length"] = 1
        elif byte >= info.get("frame_len", 0) - 2:
            probes["c06.in_crc"] = 1
        elif byte >= hl:
            probes["c06.in_payload"] = 1
    if verdict == "partial":
        probes["c06.waited_for_bytes"] = 1
    if info.get("history", "none") != "none":
        probes["c06.after_intact_original"] = 1
    if len(got) > len(frames):
        V.append(viol("C06.damaged_frame_delivered", {"reference_frames_before_damage": len(frames), "delivered": [m["reading"]["kind"] for m in got],
                                                      "bits": info.get("bits"), "kind": info.get("kind"), "verdict": verdict}, pattern=pattern))
    else:
        for r, m in zip(frames, got):
            d = [x for x in readcmp.compare(gen, wire.read(r), m["reading"]) if x["cls"] != "sentinel"]
            if d:
                V.append(viol("C06.delivered_differs", {"diffs": d[:3]}))
                break
        if len(got) < len(frames):
            V.append(viol("C06.intact_frame_before_damage_lost", {"expected": len(frames), "delivered": len(got)}))
    if verdict != "clean":
        # the connection must have been given up and a new one opened
        if len([l for l in w.net.links if l.t_accept is not None]) < 2:
            V.append(viol("C06.no_reconnect", {"links": len(w.net.links), "verdict": verdict, "bits": info.get("bits")}))
        first = w.net.links[0] if w.net.links else None
        if first is not None and not first.client_closed:
            V.append(viol("C06.damaged_connection_kept", {"bits": info.get("bits")}))
    if prb is not None and not any(m["t"] >= t_pr and m["reading"]["kind"] == "version" for m in w.messages):
        V.append(viol("C06.later_intact_frame_not_delivered", {"bits": info.get("bits"), "kind": info.get("kind"), "links": len(w.net.links)}))
    n, bad = _function_audit("x")
    probes["c06.function_audit"] = 1
    if bad:
        V.append(viol("C06.crc_function", {"strings_checked": n, "mismatch_on": bad}))
    res = common.result(w, V, nontrivial=True, probes=probes)
    res["shape"] = repr((gen, info.get("kind"), tuple(info.get("bits", [])), bool(info.get("a_len")), info.get("history", "none")))
    # CRC table indices exercised by the frames of this run (reference register walk)
    idx = set()
    for fr in frames:
        reg = 0xFFFF
        for byte in fr["raw"][pre:-2]:
            i = (byte ^ reg) & 0xFF
            idx.add(i)
            reg ^= byte
            for _ in range(8):
                reg = (reg >> 1) ^ 0xA001 if reg & 1 else reg >> 1
    res["sets"] = {"crc_table_indices_in_validated_frames": sorted(idx)}
    return res


def extra_coverage(agg, tier):
    n, bad = _function_audit("x")
    out = {"crc_function_strings_compared": n, "crc_function_mismatches": len(bad)}
    return out


LEVEL_TEXT = (
    "Fault enumeration: every single-bit corruption of a sample frame of every kind (both generations), windowed (thorough: "
    "all) double-bit corruptions and bursts <= 16 bits at every offset are each injected into a simulated inbound stream; the "
    "damaged frame must never reach a subscriber, the connection must be dropped and re-established, and a later intact frame "
    "must be delivered. The enumerated sub-space is covered completely in the thorough tier; seeded random corruptions of "
    "random frames extend it."
)
LEVEL_NOTE = "The CRC function itself is compared with a bitwise reference on all 1..2-byte strings - a plain function comparison offered as supporting evidence; the induction on length is not reproduced."
TECHNIQUE = "fault enumeration in a deterministic simulation: exhaustive single-bit / windowed double-bit / burst corruption of inbound frames, reference receiver as oracle, reconnection + probe"
