"""C10 - The object model always shows the console's latest report."""

from __future__ import annotations

from harness import gen as G
from harness.world import World
from ref import model as refmodel

from . import common, history
from .common import viol

ID = "C10"
TITLE = "The object model always shows the console's latest report"
LEVEL = "exploration"
RULE = (
    "seeded histories against an initialised AirTouch4/5: random installation, then 1..60 console steps (AC / zone / timer state "
    "changes over the full cross product of defined power, mode, fan, flag, timer and error values; partial and full status "
    "frames in any entity order; repeats; error-text and version frames; records for unknown entity ids; changes in unexposed "
    "bits), arbitrary segmentation; after every step, at the end of the instant in which the frame was delivered, every public "
    "getter of the AirTouch, each AC and each zone is read and compared with a reference model fed the same frames. "
    "non-trivial = at least 3 console steps; distinct = trace shape"
)
COMPONENTS = common.COMPONENTS_API
ASSUMPTIONS = [
    "the reference model (ref/model.py) is the reading of pyairtouch/api.py docstrings + vendor documents; where they leave a choice every admissible value is accepted (AT5 limits in auto-heat/auto-cool, both spill+bypass, sensorless zone temperatures)",
    "only defined protocol values are generated (not-available codes are C05's subject)",
]
PROBES = ["c10.error_episode_again", "c10.auto_heat_cool", "c10.intelligent_auto", "c10.error_with_text", "c10.partial_frame", "c10.unknown_entity", "c10.at5_mode_limits", "c10.version_change"]


def budget(tier: str) -> int:
    return 5000 if tier == "quick" else 400_000


def generate(rng, index: int, tier: str) -> dict:
    gen = rng.choice([4, 5])
    inst = G.installation(rng, gen, allow_zero_zones=(gen == 5))
    knobs = G.knobs(rng)
    knobs["latency"] = rng.choice([0.0, G.TICK, 2.0**-7])
    knobs["chunk_gap"] = 0.0
    n = rng.choice([1, 3, 5, 10, 20, 40, 60])
    tl = [{"at": 0.0, "op": "user.init"}]
    if rng.random() < 0.4:
        # the console does not answer error-information requests (or only some): a new error episode
        # must not show the description of an earlier one
        tl.append({"at": 5.5, "op": "console.mute", "kinds": ["error_info_request"]})
    kinds = None
    if rng.random() < 0.3:
        kinds = ["ac_error", "ac_error", "errtext", "ac", "repeat"]
    steps = history.console_steps(rng, gen, inst, n, 6.0, 0.5, kinds=kinds)
    tl += steps
    times = sorted({s["at"] for s in steps})
    for t in times:
        tl.append({"at": t + 0.1875, "op": "user.snapshot", "label": "s"})
    tl.sort(key=lambda s: s["at"])
    return {"gen": gen, "mode": "api", "installation": inst, "knobs": knobs, "timeline": tl, "end": 6.0 + 0.5 * n + 1.0}


def execute(sc: dict) -> dict:
    gen = sc["gen"]
    w = World(sc).run()
    V = []
    probes = {}
    inst = sc["installation"]
    init = next((c for c in w.calls if c["op"] == "user.init"), None)
    if init is None or init["result"] is not True:
        cross = {"init did not succeed (C09's subject)": 1} if init is not None else {}
        return common.result(w, V, nontrivial=False, cross=cross)
    wire = common.wire(gen)
    m = refmodel.Model(gen, inst, common.META)
    txi = 0
    tx = w.console.tx
    for (t, label, snap) in w.snapshots:
        while txi < len(tx) and tx[txi]["seq"] < snap["_seq"]:
            frames, verdict, _ = wire.parse_stream(tx[txi]["raw"])
            if verdict == "clean":
                for fr in frames:
                    r = wire.read(fr)
                    m.feed(r)
                    _probe(r, inst, probes, gen)
            txi += 1
        diffs = refmodel.compare(m.expected(), snap)
        if diffs:
            d0 = diffs[0]
            V.append(viol("C10.getter", {"t": t, "diffs": diffs[:5], "n": len(diffs)}, gen=gen, attr=d0["attr"], got=d0["got"] if d0["got"].startswith("('!raise'") or d0["attr"] in ("active_fan_speed",) else None))
            break
    if w.final.get("exceptions"):
        V.append(viol("C10.exception", {"contexts": w.final["exceptions"][:2]}))
    n_steps = sum(1 for s in sc["timeline"] if s["op"].startswith("console."))
    probes = {k: v for k, v in probes.items() if isinstance(k, str)}
    return common.result(w, V, nontrivial=n_steps >= 3, probes=probes, evals=max(1, len(w.snapshots)))


def _probe(r: dict, inst: dict, probes: dict, gen: int) -> None:
    if r["kind"] == "ac_status":
        known = {a["ac"] for a in inst["acs"]}
        for a in r["acs"]:
            key = ("_err_seen", a["ac"])
            if a["error"]:
                if probes.get(key) == "cleared":
                    probes["c10.error_episode_again"] = 1
                if probes.get(key) != "cleared":
                    probes[key] = "active"
            elif probes.get(key) == "active":
                probes[key] = "cleared"
        for a in r["acs"]:
            if a["mode"] in ("auto_heat", "auto_cool"):
                probes["c10.auto_heat_cool"] = 1
            if str(a["fan"]).startswith("ia_"):
                probes["c10.intelligent_auto"] = 1
            if a["ac"] not in known:
                probes["c10.unknown_entity"] = 1
            if gen == 5 and a["mode"] in ("heat", "cool"):
                probes["c10.at5_mode_limits"] = 1
        if len(r["acs"]) < len(known):
            probes["c10.partial_frame"] = 1
    elif r["kind"] == "error_info" and r["text"]:
        probes["c10.error_with_text"] = 1
    elif r["kind"] == "version":
        probes["c10.version_change"] = 1
    elif r["kind"] in ("group_status", "zone_status"):
        known = {z["zone"] for z in inst["zones"]}
        recs = r.get("groups", r.get("zones"))
        if any(z.get("group", z.get("zone")) not in known for z in recs):
            probes["c10.unknown_entity"] = 1
        if len(recs) < len(known):
            probes["c10.partial_frame"] = 1


LEVEL_TEXT = (
    "Seeded search over frame histories on initialised API objects: after each console step all public getters are compared, "
    "at an instant boundary, with an independent reference model fed the same frames (selected vs active mode/fan, mode-"
    "dependent limits, error details only with an error code, timers, versions). Sampled evidence."
)
LEVEL_NOTE = "Trusts ref/model.py + ref/wire*.py; the timer status messages are not in the vendor documents (reference follows spec/undocumented_messages.md)."
TECHNIQUE = "deterministic simulation of console status histories against the initialised client, operation-by-operation comparison of all public getters with an executable reference model"
