"""Field-by-field comparison: reference reading (ref.wireN.read) vs client reading (adapter.reading_of)."""

from __future__ import annotations

NA = "na"
UNDEF = "undef"

# keys that only the reference has (framing detail) or that are compared elsewhere
_SKIP = {"pad", "b1hi", "sub", "normal", "rlen", "rcount", "keep0", "sp_raw", "why"}


def _eq(a, b) -> bool:
    if isinstance(a, bool) or isinstance(b, bool):
        return a == b
    if isinstance(a, (int, float)) and isinstance(b, (int, float)):
        return abs(a - b) < 1e-9
    return a == b


def _cmp_record(path: str, ref: dict, got: dict, diffs: list, optional_none: set) -> None:
    for k, rv in ref.items():
        if k in _SKIP:
            continue
        if k not in got:
            continue
        gv = got[k]
        if rv == NA:
            if gv is not None:
                diffs.append({"at": f"{path}.{k}", "ref": "not available", "got": gv, "cls": "sentinel"})
            continue
        if rv == UNDEF:
            continue
        if isinstance(rv, dict) and isinstance(gv, dict):
            _cmp_record(f"{path}.{k}", rv, gv, diffs, optional_none)
            continue
        if isinstance(rv, list) and isinstance(gv, list) and rv and isinstance(rv[0], dict):
            if len(rv) != len(gv):
                diffs.append({"at": f"{path}.{k}", "ref": f"{len(rv)} records", "got": f"{len(gv)} records", "cls": "count"})
                continue
            for i, (r1, g1) in enumerate(zip(rv, gv)):
                _cmp_record(f"{path}.{k}[{i}]", r1, g1, diffs, optional_none)
            continue
        if k in optional_none and gv is None:
            continue
        if isinstance(rv, list) and isinstance(gv, list):
            if sorted(map(repr, rv)) != sorted(map(repr, gv)):
                diffs.append({"at": f"{path}.{k}", "ref": rv, "got": gv, "cls": "value"})
            continue
        if isinstance(rv, dict) != isinstance(gv, dict):
            diffs.append({"at": f"{path}.{k}", "ref": rv, "got": gv, "cls": "type"})
            continue
        if not _eq(rv, gv):
            diffs.append({"at": f"{path}.{k}", "ref": rv, "got": gv, "cls": "value"})


def compare(gen: int, ref: dict, got: dict) -> list[dict]:
    """Differences; empty list = the client reading agrees with the reference reading."""
    diffs: list[dict] = []
    rk, gk = ref["kind"], got["kind"]
    if rk == UNDEF:
        return diffs
    if rk != gk:
        # AT5: an unknown 0xC0 sub-type may be delivered as cs_unknown with its payload
        diffs.append({"at": "kind", "ref": rk, "got": gk, "cls": "kind"})
        return diffs
    if rk in ("group_status", "zone_status"):
        key = "groups" if rk == "group_status" else "zones"
        if len(ref[key]) != len(got[key]):
            diffs.append({"at": key, "ref": len(ref[key]), "got": len(got[key]), "cls": "count"})
            return diffs
        for i, (r1, g1) in enumerate(zip(ref[key], got[key])):
            opt = set()
            if not r1["sensor"]:
                # API: None when the zone has no sensor.  AT5 defines the set-point byte on its own (only 0xFF is "invalid"),
                # and the message class documents None for "no sensor AND no set point defined": there only the temperature
                # may be withheld
                opt = {"temp", "setpoint"} if gen == 4 else {"temp"}
            _cmp_record(f"{key}[{i}]", r1, g1, diffs, opt)
        return diffs
    if rk in ("unknown", "ext_unknown", "cs_unknown"):
        for k in ("type", "sub"):
            if k in ref and k in got and ref[k] != got[k]:
                diffs.append({"at": k, "ref": ref[k], "got": got[k], "cls": "value"})
        if bytes(ref["payload"]) != bytes(got["payload"]):
            diffs.append({"at": "payload", "ref": bytes(ref["payload"]).hex(), "got": bytes(got["payload"]).hex(), "cls": "value"})
        return diffs
    if rk == "names":
        if {int(k): v for k, v in ref["names"].items()} != {int(k): v for k, v in got["names"].items()}:
            diffs.append({"at": "names", "ref": ref["names"], "got": got["names"], "cls": "value"})
        return diffs
    if rk in ("group_control", "zone_control", "ac_control"):
        a, b = _control_key(gen, ref, True), _control_key(gen, got, False)
        if UNDEF in repr(a):
            return diffs  # a code the documents do not define: any reading (or rejection) is admissible
        if a != b:
            diffs.append({"at": rk, "ref": a, "got": b, "cls": "value"})
        return diffs
    _cmp_record(rk, ref, got, diffs, set())
    return diffs


def _control_key(gen: int, r: dict, is_ref: bool):
    """Control frames: the value bytes only mean something for 'set' settings."""
    k = r["kind"]
    if k == "group_control":
        return (r["group"], r["power"], r["method"], r["setting"], r["value"] if r["setting"] in ("percent", "setpoint") else None)
    if k == "zone_control":
        out = []
        for c in r["zones"]:
            v = None
            if c["setting"] == "percent":
                v = c["value"]
            elif c["setting"] == "setpoint":
                v = c["value"] if is_ref else round(c["value"] * 10) - 100
            out.append((c["zone"], c["power"], c["setting"], v))
        return tuple(out)
    if gen == 4:
        return (r["ac"], r["power"], r["mode"], r["fan"], r["sp_type"], r["sp_value"] if r["sp_type"] == "set" else None)
    out = []
    for c in r["acs"]:
        v = None
        if c["sp_ctrl"] == "set":
            v = c["sp_raw"] if is_ref else round(c["setpoint"] * 10) - 100
        out.append((c["ac"], c["power"], c["mode"], c["fan"], c["sp_ctrl"], v))
    return tuple(out)
