"""C05 - Status frames are interpreted as the vendor protocol defines."""

from __future__ import annotations

import random

from harness import framegen
from harness import gen as G
from harness.world import World
from ref import wire4, wire5

from . import common, readcmp
from .common import viol

ID = "C05"
TITLE = "Status frames are interpreted as the vendor protocol defines"
LEVEL = "exploration"
RULE = (
    "sweep of every record layout a console can send (AT4 0x2B, 0x2D, 0x37, 0xFF10/11/12/30; AT5 0xC0 0x21/0x23/0x33, "
    "0xFF10/11/13/30): for base records, every value of every byte (exhaustive per-byte sweep; thorough: 3 bases and every "
    "adjacent byte pair on the status layouts), one record per frame, 64 frames per simulated run on a real socket (a rejected "
    "frame resets the connection; the next frame goes to the new one); plus seeded random frames with 0..16 records, AT5 "
    "strides >= known, AT4 ability with and without group bitmap. Each delivered message is compared field by field with the "
    "reference reading; a fully defined record must be delivered. non-trivial = every frame; distinct = distinct frame bytes"
)
COMPONENTS = {
    "real": ["all status / ability / names / version / error decoders of both generations", "AirTouchSocket read loop (reject = reset + reconnect)", "crc16", "asyncio streams"],
    "stub": ["clock/_run_once", "TCP", "console = frame source"],
}
ASSUMPTIONS = [
    "the property is a function of the payload; the simulator is the vehicle (fit: V) and contributes that 'rejected' = connection reset + reconnect never wedges",
    "a record containing a code the documents call undefined / not available may be rejected or delivered with the remaining fields right",
    "AT4 0x37 / AT5 0x33 timer layouts and strings' UTF-8 encoding are not in the vendor documents (spec/undocumented_messages.md)",
]
PROBES = ["c05.rejected_then_next_delivered", "c05.sentinel_none", "c05.stride", "c05.zero_records", "c05.ability_no_bitmap"]
EXHAUSTIVE = True
TRUSTED_BASE = ["ref/wire4.py, ref/wire5.py (record layouts from the vendor documents)"]
FRAMES_PER_RUN = 64
MUST_DELIVER = {"group_status", "zone_status", "ac_status", "timer_status", "ability", "names", "version", "error_info"}


def budget(tier: str) -> int:
    return 1500 if tier == "quick" else 60_000


def _layouts(gen: int, seed: int):
    """(name, builder(record_bytes)->frame, base record bytes, sweep positions)"""
    rng = random.Random(seed)
    out = []
    if gen == 4:
        w = wire4
        g = w.enc_group_status_record(dict(G.zone_state(rng, 4), group=rng.randint(0, 15), sensor=True, temp=21.5))
        out.append(("at4.group_status", lambda r: w.f_status(1, w.T_GROUP_STATUS, r), g, range(6)))
        a = w.enc_ac_status_record(dict(G.ac_state(rng, 4), ac=rng.randint(0, 3)))
        out.append(("at4.ac_status", lambda r: w.f_status(1, w.T_AC_STATUS, r), a, range(8)))
        t = w.enc_timer_records({i: {"on": G.timer(rng), "off": G.timer(rng)} for i in range(4)})
        out.append(("at4.timer_status", lambda r: w.f_status(1, w.T_TIMER_STATUS, r), t, range(0, 12)))
        inst = G.installation(rng, 4, allow_zero_zones=False, state=False)
        ab = w.enc_ability_record(inst["acs"][0], with_bitmap=True)
        out.append(("at4.ability", lambda r: w.f_ext(1, w.X_ABILITY, r), ab, range(len(ab))))
        ab2 = w.enc_ability_record(inst["acs"][0], with_bitmap=False)
        out.append(("at4.ability_old", lambda r: w.f_ext(1, w.X_ABILITY, r), ab2, range(len(ab2))))
        nm = w.enc_names({3: "Living", 7: "Küche"})
        out.append(("at4.names", lambda r: w.f_ext(1, w.X_NAMES, r), nm, range(len(nm))))
        er = bytes((1, 5)) + b"E5 ok"
        out.append(("at4.error_info", lambda r: w.f_ext(1, w.X_ERR, r), er, range(len(er))))
        ve = w.enc_version(False, ["1.3.3", "1.2.0"], "|")
        out.append(("at4.version", lambda r: w.f_ext(1, w.X_VERSION, r), ve, range(len(ve))))
    else:
        w = wire5
        z = w.enc_zone_status_record(dict(G.zone_state(rng, 5), zone=rng.randint(0, 15), sensor=True, temp=21.5, setpoint=22.0))
        out.append(("at5.zone_status", lambda r: w.f_cs(1, w.S_ZONE_STATUS, [r]), z, range(8)))
        a = w.enc_ac_status_record(dict(G.ac_state(rng, 5), ac=rng.randint(0, 15)), 10)
        out.append(("at5.ac_status", lambda r: w.f_cs(1, w.S_AC_STATUS, [r]), a, range(10)))
        a8 = a[:8]
        out.append(("at5.ac_status8", lambda r: w.f_cs(1, w.S_AC_STATUS, [r]), a8, range(8)))
        t = w.enc_timer_record({"ac": rng.randint(0, 15), "on": G.timer(rng), "off": G.timer(rng)})
        out.append(("at5.timer_status", lambda r: w.f_cs(1, w.S_TIMER_STATUS, [r]), t, range(9)))
        inst = G.installation(rng, 5, state=False)
        ab = w.enc_ability_record(inst["acs"][0])
        out.append(("at5.ability", lambda r: w.f_ext(1, w.X_ABILITY, r), ab, range(len(ab))))
        nm = w.enc_names({3: "Living", 7: "Küche"})
        out.append(("at5.names", lambda r: w.f_ext(1, w.X_NAMES, r), nm, range(len(nm))))
        er = bytes((1, 5)) + b"E5 ok"
        out.append(("at5.error_info", lambda r: w.f_ext(1, w.X_ERR, r), er, range(len(er))))
        ve = wire4.enc_version(True, ["1.0.3", "1.0.4"], ",")
        out.append(("at5.version", lambda r: w.f_ext(1, w.X_VERSION, r), ve, range(len(ve))))
        sh = w.sub_header(w.S_AC_STATUS, 0, 10, 1)
        out.append(("at5.ac_status_subheader", lambda r: w.frame(w.ADDR_CLIENT, w.ADDR_CONSOLE, 1, w.T_CS, r + a), sh, range(8)))
    return out


def _scenario(gen: int, frames: list[bytes], label: str) -> dict:
    tl = [{"at": 0.0, "op": "user.open"}]
    t = 1.0
    for f in frames:
        tl.append({"at": t, "op": "console.raw", "hex": f.hex(), "input": True})
        t += 0.25
    return {"gen": gen, "mode": "socket", "knobs": {"latency": 0.0, "seg": {"mode": "whole"}}, "timeline": tl, "end": t + 1.0, "label": label}


def enumerated(tier: str):
    bases = 1 if tier == "quick" else 3
    for gen in (4, 5):
        for b in range(bases):
            for (name, build, base, positions) in _layouts(gen, 100 * gen + b):
                frames = []
                for pos in positions:
                    for v in range(256):
                        r = bytearray(base)
                        r[pos] = v
                        frames.append(build(bytes(r)))
                        if len(frames) == FRAMES_PER_RUN:
                            yield _scenario(gen, frames, f"{name}/byte")
                            frames = []
                if frames:
                    yield _scenario(gen, frames, f"{name}/byte")
                # adjacent byte pairs on the status layouts (thorough)
                if tier == "thorough" and b == 0 and name in ("at4.group_status", "at4.ac_status", "at5.zone_status", "at5.ac_status", "at5.timer_status"):
                    pl = list(positions)
                    for i in range(len(pl) - 1):
                        frames = []
                        for v1 in range(256):
                            for v2 in range(256):
                                r = bytearray(base)
                                r[pl[i]] = v1
                                r[pl[i + 1]] = v2
                                frames.append(build(bytes(r)))
                                if len(frames) == 4 * FRAMES_PER_RUN:
                                    yield _scenario(gen, frames, f"{name}/pair")
                                    frames = []
                        if frames:
                            yield _scenario(gen, frames, f"{name}/pair")


def generate(rng, index: int, tier: str) -> dict:
    gen = rng.choice([4, 5])
    frames = []
    for _ in range(FRAMES_PER_RUN // 2):
        r = rng.random()
        if r < 0.6:
            frames.append(framegen.frame(rng, gen)[0])
        elif r < 0.7:
            # zero records
            if gen == 4:
                frames.append(wire4.f_ext(1, wire4.X_ABILITY, wire4.enc_ability_record(G.installation(rng, 4, allow_zero_zones=False, state=False)["acs"][0], with_bitmap=rng.random() < 0.5)))
            else:
                frames.append(wire5.f_cs(1, rng.choice([wire5.S_ZONE_STATUS, wire5.S_AC_STATUS, wire5.S_TIMER_STATUS]), [], rlen=rng.choice([8, 9, 10])))
        else:
            # random record bytes in a well-formed frame
            if gen == 4:
                t, n = rng.choice([(wire4.T_GROUP_STATUS, 6), (wire4.T_AC_STATUS, 8), (wire4.T_TIMER_STATUS, 8)])
                frames.append(wire4.f_status(1, t, bytes(rng.randrange(256) for _ in range(n * rng.choice([1, 2, 4])))))
            else:
                s, n = rng.choice([(wire5.S_ZONE_STATUS, 8), (wire5.S_AC_STATUS, 8), (wire5.S_AC_STATUS, 10), (wire5.S_TIMER_STATUS, 9)])
                stride = n + rng.choice([0, 0, 1, 5])
                frames.append(wire5.f_cs(1, s, [bytes(rng.randrange(256) for _ in range(stride)) for _ in range(rng.choice([1, 2, 3]))], rlen=stride))
    return _scenario(gen, frames, "random")


def execute(sc: dict) -> dict:
    gen = sc["gen"]
    wire = common.wire(gen)
    w = World(sc)
    w.console.silent = True
    w.run()
    V = []
    probes = {}
    opened = any(c["op"] == "user.open" and c["t_call"] is not None for c in w.calls)
    steps = [st for st in sc["timeline"] if st.get("input")]
    if not opened or not steps:
        return common.result(w, V, nontrivial=False)
    msgs = w.messages
    mi = 0
    evals = 0
    prev_rejected = False
    uniq = set()
    for i, st in enumerate(steps):
        t_lo = st["at"]
        t_hi = steps[i + 1]["at"] if i + 1 < len(steps) else 1e18
        got = []
        while mi < len(msgs) and msgs[mi]["t"] < t_hi:
            if msgs[mi]["t"] >= t_lo:
                got.append(msgs[mi])
            mi += 1
        raw = bytes.fromhex(st["hex"])
        uniq.add(raw)
        frames, verdict, _ = wire.parse_stream(raw)
        if verdict != "clean" or len(frames) != 1:
            continue
        evals += 1
        ref = wire.read(frames[0])
        sent = any(x["raw"] == raw and x["t"] == t_lo for x in w.console.tx)
        if not sent:
            continue  # no link at that instant (reconnect in progress): no obligation
        if "stride" in sc.get("label", "") or (gen == 5 and ref.get("rlen", 0) > {"zone_status": 8, "ac_status": 10, "timer_status": 9}.get(ref["kind"], 99)):
            probes["c05.stride"] = 1
        if ref.get("rcount") == 0 and ref["kind"] in ("zone_status", "ac_status", "timer_status"):
            probes["c05.zero_records"] = 1
        if ref["kind"] == "ability" and gen == 4 and any(a["groups"] is None for a in ref["acs"]):
            probes["c05.ability_no_bitmap"] = 1
        if len(got) > 1:
            V.append(viol("C05.delivered_twice", {"frame": raw.hex()}))
            break
        if not got:
            if not _has_undef(ref) and ref["kind"] in MUST_DELIVER:
                V.append(viol("C05.defined_payload_rejected", {"frame": raw.hex(), "reference": repr(ref)[:400], "label": sc.get("label")}, kind=ref["kind"], gen=gen))
                break
            prev_rejected = True  # the next frame goes to a fresh connection
            continue
        if prev_rejected:
            probes["c05.rejected_then_next_delivered"] = 1
        prev_rejected = False
        d = readcmp.compare(gen, ref, got[0]["reading"])
        hard = [x for x in d if x["cls"] != "sentinel"]
        soft = [x for x in d if x["cls"] == "sentinel"]
        if hard:
            x = hard[0]
            V.append(viol("C05.misdecoded", {"frame": raw.hex(), "diffs": hard[:3], "reference": repr(ref)[:300]}, kind=ref["kind"], gen=gen, field=x["at"].split(".")[-1]))
            break
        if soft:
            x = soft[0]
            V.append(viol("C05.sentinel_decoded_as_value", {"frame": raw.hex(), "field": x["at"], "got": x["got"], "reference": "not available"},
                          kind=ref["kind"], gen=gen, field=x["at"].split(".")[-1]))
        elif _has_none(got[0]["reading"]):
            probes["c05.sentinel_none"] = 1
    if "pair" in sc.get("label", ""):
        probes["c05.pair_sweep"] = 1
    if w.final.get("exceptions"):
        V.append(viol("C05.unhandled_exception", {"contexts": w.final["exceptions"][:2]}))
    # de-duplicate sentinel findings per (kind, field)
    seen = set()
    V2 = []
    for v in V:
        key = (v["rule"], tuple(sorted(v["sig"].items())))
        if key in seen:
            continue
        seen.add(key)
        V2.append(v)
    res = common.result(w, V2, nontrivial=True, probes=probes, evals=max(1, evals))
    res["shape"] = str(hash(tuple(sorted(uniq))) & 0xFFFFFFFFFFFF) if False else _digest(uniq)
    return res


def _digest(frames) -> str:
    import hashlib

    h = hashlib.sha256()
    for f in sorted(frames):
        h.update(f)
    return h.hexdigest()[:16]


def _has_undef(r) -> bool:
    if isinstance(r, dict):
        return any(_has_undef(v) for v in r.values())
    if isinstance(r, list):
        return any(_has_undef(v) for v in r)
    return r in ("undef", "na")


def _has_none(r) -> bool:
    if isinstance(r, dict):
        return any(_has_none(v) for k, v in r.items() if k in ("temp", "setpoint", "groups", "zones", "acs"))
    if isinstance(r, list):
        return any(_has_none(v) for v in r)
    return r is None


LEVEL_TEXT = (
    "Exhaustive per-byte sweep (thorough: adjacent byte pairs on the status layouts) of every record layout plus seeded random "
    "frames, each delivered through the real receive path and compared field by field with an independent reference reading of "
    "the same bytes; defined payloads must be delivered, undefined ones may be rejected, nothing may be decoded to a different "
    "defined value. The enumerated sweep is complete for its stated sub-space; the rest is sampled."
)
LEVEL_NOTE = "Input-quantified property: the simulator is the vehicle. Trusts ref/wire4.py / ref/wire5.py as the reading of the vendor documents."
TECHNIQUE = "deterministic simulation as vehicle: enumerated per-byte / byte-pair payload sweep through the real read loop (reject = reset + reconnect), differential check against reference decoders"
