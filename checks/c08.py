"""C08 - Heartbeat detects a dead link, and only a dead link."""

from __future__ import annotations

from harness import gen as G
from harness.world import World
from ref import console as refconsole

from . import common, sendq
from .common import viol

ID = "C08"
TITLE = "Heartbeat detects a dead link, and only a dead link"
LEVEL = "exploration"
RULE = (
    "seeded answer patterns over up to 12 consecutive heartbeats (each answered promptly / late by d in {1,5,29,31,45,100,400} s "
    "/ never), silence from the first heartbeat, after a response, and again after a previous timeout reset; black-holed links "
    "(the link stays up); both API generations with the default 300/330 s and a bare HeartbeatManager with custom interval / "
    "timeout pairs; ~1 hour of simulated time per run. The history is checked against (a) the tick grid of version requests "
    "while connected and (b) a reference deadline process (D := start + timeout; D := r + timeout on every response r < D; at D "
    "the connection must be reset and re-established, then D := reset + timeout). non-trivial = at least one unanswered or "
    "late heartbeat; distinct = trace shape"
)
COMPONENTS = common.COMPONENTS_API
ASSUMPTIONS = [
    "monitoring starts when init() completes (API) / when HeartbeatManager.start() is called (bare)",
    "instants within 0.1 s of a deadline (responses, connection changes) are not judged; after a reset the next deadline may count from any instant between the close and the re-establishment",
    "any delivered console-version message counts as a response, solicited or not",
]
PROBES = ["c08.slow_reconnect_after_reset", "c08.initialised_after_init_gave_up", "c08.second_system_in_process", "c08.full_buffer_at_tick", "c08.other_extended_traffic", "c08.blocked_dead_link", "c08.silence_from_start", "c08.silence_after_response", "c08.silence_after_reset", "c08.late_answer", "c08.blackhole", "c08.bare_manager",
          "c08.reset_expected", "c08.second_reset_expected", "c08.all_answered", "c08.outage_over_tick"]


def budget(tier: str) -> int:
    return 4000 if tier == "quick" else 300_000


def _pattern(rng, n: int):
    style = rng.choice(["all_prompt", "from_start", "after_some", "mixed", "late_only", "forever"])
    acts = []
    for i in range(n):
        if style == "all_prompt":
            acts.append("prompt")
        elif style == "from_start":
            acts.append("never" if i < rng.choice([1, 2, 3, 12]) else "prompt")
        elif style == "after_some":
            acts.append("prompt" if i < 2 else "never")
        elif style == "forever":
            acts.append("never")
        elif style == "late_only":
            acts.append(["late", rng.choice([1.0, 5.0, 29.0])])
        else:
            r = rng.random()
            acts.append("prompt" if r < 0.4 else "never" if r < 0.7 else ["late", rng.choice([1.0, 5.0, 29.0, 31.0, 45.0, 100.0, 400.0])])
    return style, acts


def generate(rng, index: int, tier: str) -> dict:
    gen = rng.choice([4, 5])
    bare = rng.random() < 0.3
    n = rng.choice([2, 4, 8, 12])
    style, acts = _pattern(rng, n + 8)
    blocked = rng.random() < 0.15
    if blocked:
        # a dead link with a blocked write: after a few answered heartbeats the peer stops reading and answering; the next
        # heartbeat sits in the transport, the reset at the deadline cannot finish closing until the peer finally resets
        # the link (X seconds later); the console stays silent on the new connection as well
        n_prompt = rng.choice([0, 1, 2])
        n = max(n, n_prompt + 4)
        style = "after_some" if n_prompt else "from_start"
        acts = ["prompt"] * n_prompt + ["never"] * (n + 8 - n_prompt)
    lat = rng.choice([0.0, G.TICK, 2.0**-7])
    knobs = {"latency": lat, "seg": {"mode": "whole"}}
    if bare:
        interval, timeout = rng.choice([(10.0, 15.0), (60.0, 61.0), (300.0, 330.0), (30.0, 100.0), (20.0, 20.5)])
        t_s = rng.choice([1.0, 2.5])
        tl = [{"at": 0.0, "op": "user.open"}, {"at": t_s, "op": "user.hb_start", "interval": interval, "timeout": timeout},
              {"at": 0.0, "op": "console.script", "kind": "version_request", "actions": acts}]
        if rng.random() < 0.4:
            # the manager object exists long before monitoring starts: the first window still counts from start()
            t_s = rng.choice([timeout * 0.5, timeout + 5.0, 2.5 * timeout])
            tl[1] = {"at": t_s, "op": "user.hb_start", "interval": interval, "timeout": timeout, "created_earlier": True}
            tl.append({"at": 0.25, "op": "user.hb_start", "interval": interval, "timeout": timeout, "create_only": True})
        scale = interval / 300.0
        acts2 = [a if not isinstance(a, list) else ["late", a[1] * scale] for a in acts]
        tl[2]["actions"] = acts2
        end = t_s + (n + 2) * interval + timeout
        info = {"bare": True, "interval": interval, "timeout": timeout, "style": style}
        sc = {"gen": gen, "mode": "socket", "knobs": knobs, "timeline": tl, "end": end, "info": info}
    else:
        interval, timeout = 300.0, 330.0
        inst = refconsole.default_installation(gen)
        # the API object exists from t = 0; init() may be called much later - monitoring starts when initialisation completes
        t_init = rng.choice([0.0, 0.0, 0.0, 60.0, 400.0])
        tl = [{"at": 0.0, "op": "console.script", "kind": "version_request", "actions": ["prompt"] + acts}, {"at": t_init, "op": "user.init"}]
        second = rng.random() < 0.2
        if second:
            # the process also drives another AirTouch system (either generation), initialised before or after this one; its
            # heartbeat monitoring is its own business
            tl.append({"at": rng.choice([0.0, t_init + 20.0, t_init + 100.0]) if t_init == 0.0 else rng.choice([0.0, t_init - 30.0, t_init + 100.0]),
                       "op": "user.second_system", "gen": rng.choice([4, 5])})
        end = t_init + (n + 2) * interval + timeout + 10.0
        info = {"bare": False, "interval": interval, "timeout": timeout, "style": style, "second_system": second}
        if rng.random() < 0.12:
            # the handshake only completes after init() has given up (console unreachable for the first seconds, or slow to
            # answer): the client becomes initialised in the background - "once initialised" the monitoring must run
            if rng.random() < 0.5:
                knobs["fates"] = [{"kind": "refuse", "latency": 0.0}] * rng.choice([3, 4]) + [{"kind": "accept", "latency": 0.0}]
            else:
                tl.append({"at": 0.0, "op": "console.delay", "delay": rng.choice([1.0, 1.5])})
                tl.append({"at": t_init + 30.0, "op": "console.delay", "delay": 0.0})
            tl.append({"at": t_init + 40.0, "op": "user.snapshot", "label": "late"})
            info["late_handshake"] = True
        sc = {"gen": gen, "mode": "api", "installation": inst, "knobs": knobs, "timeline": tl, "end": end, "info": info}
    if not blocked and style in ("from_start", "forever") and rng.random() < 0.35:
        # the reconnection after the first timeout reset is slow (one slow accept, or refusals): the silence on the new link is
        # still counted from the reset
        slow = rng.choice([[{"kind": "accept", "latency": rng.choice([40.0, 70.0])}], [{"kind": "refuse", "latency": 0.0}] * rng.choice([10, 30]) + [{"kind": "accept", "latency": 0.0}]])
        sc["timeline"].append({"at": (t_s if bare else t_init) + 8.0, "op": "net.fates", "fates": slow})
        sc["info"]["slow_reconnect"] = True
    if blocked:
        first = (t_s if bare else t_init + 0.1)
        t_stall = first + n_prompt * interval + interval / 2
        t_deadline = first + (n_prompt * interval if n_prompt else 0.0) + timeout
        x = rng.choice([5.0, 29.0, 31.0, 60.0, 100.0])
        sc["timeline"].append({"at": t_stall, "op": "net.stall", "on": True})
        sc["timeline"].append({"at": t_deadline + x, "op": rng.choice(["net.rst", "net.stall"]), "on": False})
        sc["info"]["blocked_dead_link"] = x
        sc["end"] = max(sc["end"], t_deadline + x + timeout + interval + 10.0)
    elif rng.random() < 0.25:
        t_b = G.pick_time(rng, (t_init + 5.0) if not bare else t_s + 0.5, end * 0.6, anchors=[interval, 2 * interval, timeout])
        sc["timeline"].append({"at": t_b, "op": "net.blackhole", "on": True})
        sc["info"]["blackhole_at"] = t_b
        if rng.random() < 0.5:
            sc["timeline"].append({"at": t_b + timeout + interval + 5.0, "op": "net.blackhole", "on": True})
    elif rng.random() < 0.25:
        # an outage that spans a heartbeat tick: FIN shortly before the tick, reconnect shortly after it
        first = (t_s if bare else t_init + 0.1)
        k = rng.randint(1, max(1, n - 1))
        delta = rng.choice([0.25, 0.5])
        t_f = first + k * interval - delta
        sc["timeline"].append({"at": t_f - G.EPS, "op": "net.fates", "fates": [{"kind": "accept", "latency": delta + rng.choice([0.25, 0.5, 0.75, 3.0])}]})
        sc["timeline"].append({"at": t_f, "op": "net.fin"})
        sc["info"]["fin_at"] = t_f
        if rng.random() < 0.5:
            # ... during which the user keeps issuing commands: at the tick the client's buffer of pending messages is full.
            # Whatever happens to that heartbeat, the monitoring must go on once the link is back.
            burst = sendq.distinct_messages(rng, gen, 12)[: rng.choice([10, 10, 11])]
            for i, d in enumerate(burst):
                at = t_f + delta * 0.5 + i * 2.0**-8
                if bare:
                    sc["timeline"].append({"at": at, "op": "user.send", "msg": d, "policy": "idem"})
                else:
                    sc["timeline"].append({"at": at, "op": "user.api", "target": ["zone", 0], "call": "set_power", "args": {"zone_power": "ON" if i % 2 else "OFF"}})
            sc["info"]["full_buffer_at_tick"] = True
    if rng.random() < 0.3:
        # other traffic on the link, in particular other *extended* (0x1F) messages: error descriptions pushed by the console,
        # and AC status frames with a new error code (the client asks for the description, the console answers).  None of it
        # is a console-version response.
        t = (t_s if bare else t_init) + rng.choice([40.0, 100.0])
        step = rng.choice([45.0, 100.0, 200.0])
        i = 0
        while t < sc["end"] - 5.0:
            if bare or rng.random() < 0.5:
                sc["timeline"].append({"at": t, "op": "console.errtext", "ac": 0, "text": rng.choice(["E5", "ER: 12", None]), "publish": True})
            else:
                sc["timeline"].append({"at": t, "op": "console.set", "entity": ["ac", 0], "fields": {"error": 1 + (i % 7)}, "only": True})
            t += step
            i += 1
        sc["info"]["other_extended_traffic"] = True
    sc["timeline"].sort(key=lambda s: s["at"])
    return sc


def execute(sc: dict) -> dict:
    info = sc["info"]
    I, T = info["interval"], info["timeout"]
    w = World(sc)
    if info["bare"]:
        w.console.apply_controls = False
    w.run()
    V = []
    probes = {}
    if info["bare"]:
        probes["c08.bare_manager"] = 1
        st = next((c for c in w.calls if c["op"] == "user.hb_start"), None)
        start = st["t_ret"] if st and st["t_ret"] is not None else None
    else:
        init = next((c for c in w.calls if c["op"] == "user.init"), None)
        start = init["t_ret"] if init and init["result"] is True else None
        if start is None and info.get("late_handshake") and init is not None and init["t_ret"] is not None:
            # init() returned False, the handshake went on in the background: monitoring is owed from the moment the last
            # handshake answer reached the client (if the client then calls itself initialised)
            snap = next((s_ for (_t, lbl, s_) in w.snapshots if lbl == "late"), None)
            last_kind = "group_status" if sc["gen"] == 4 else "zone_status"
            lat0 = sc["knobs"].get("latency", 0.0)
            ans = [x["t"] + lat0 for x in w.console.tx if x["kind"] == last_kind]
            if snap is not None and snap.get("initialised") is True and ans:
                start = ans[0]
                probes["c08.initialised_after_init_gave_up"] = 1
    if start is None:
        return common.result(w, V, nontrivial=False)
    end = sc["end"] - 1.0
    lat = sc["knobs"].get("latency", 0.0)
    links = common.link_lifetimes(w)
    style = info.get("style")
    probes["c08." + {"from_start": "silence_from_start", "forever": "silence_from_start", "after_some": "silence_after_response",
                     "mixed": "late_answer", "late_only": "late_answer", "all_prompt": "all_answered"}.get(style, "all_answered")] = 1
    if "blackhole_at" in info:
        probes["c08.blackhole"] = 1
    if "blocked_dead_link" in info:
        probes["c08.blocked_dead_link"] = 1
    if info.get("full_buffer_at_tick"):
        probes["c08.full_buffer_at_tick"] = 1
    if info.get("second_system"):
        probes["c08.second_system_in_process"] = 1
    if info.get("other_extended_traffic"):
        probes["c08.other_extended_traffic"] = 1

    def live_at(t):
        """(state, link): state in {'up','down','amb'}"""
        for l in links:
            for edge in (l["up"], l["close"]):
                if edge is not None and abs(edge - t) < 0.1:
                    return "amb", l
        for l in links:
            if l["up"] <= t and (l["close"] is None or l["close"] > t):
                return "up", l
        return "down", None

    # ---- (a) cadence
    reqs = [f for f in common.client_frames(w) if f["reading"]["kind"] == "version_request" and f["t"] >= start - 1e-9]
    times = [f["t"] for f in reqs]
    end_all = end
    if "blocked_dead_link" in info:
        # a heartbeat whose write is held by flow control returns late and the sender's phase moves by that much: the tick
        # grid is judged up to the stall; afterwards only the spacing between consecutive requests (below)
        t_stall = next((st["at"] for st in sc["timeline"] if st["op"] == "net.stall" and st.get("on", True)), end)
        end = min(end, t_stall)
        times = [t for t in times if t < end]
        after = [f["t"] for f in reqs if f["t"] >= t_stall + T]
        for a, b in zip(after, after[1:]):
            if live_at((a + b) / 2)[0] == "up" and live_at(a)[0] == "up" and live_at(b)[0] == "up" and abs((b - a) - I) > 0.05:
                V.append(viol("C08.heartbeat_spacing", {"a": a, "b": b, "interval": I}))
                break
    if not times:
        if live_at(start)[0] == "up" and end - start > I:
            V.append(viol("C08.no_heartbeat", {"start": start}))
    else:
        r0 = times[0]
        if r0 > start + I + 0.05:
            V.append(viol("C08.first_heartbeat_late", {"start": start, "first": r0}))
        k = 0
        grid = []
        while r0 + k * I < end:
            grid.append(r0 + k * I)
            k += 1
        for tk in grid:
            stt, _l = live_at(tk)
            has = any(abs(t - tk) <= 0.05 for t in times)
            if stt == "up" and not has:
                V.append(viol("C08.heartbeat_missing", {"tick": tk, "first": r0, "interval": I, "requests": times[:14]}))
                break
            if stt == "down" and has:
                V.append(viol("C08.heartbeat_while_disconnected", {"tick": tk}))
                break
        for t in times:
            if t < end and not any(abs(t - tk) <= 0.05 for tk in grid):
                V.append(viol("C08.heartbeat_off_grid", {"t": t, "first": r0, "interval": I}))
                break
    end = end_all
    # ---- (b) deadline process
    resp = [d["t"] for d in common.delivered_frames(w) if d["reading"]["kind"] == "version" and d["t"] > start + 1e-9]
    closes = [(l["close"], l) for l in links if l["close"] is not None and l["close"] >= start and l["close_kind"] == "conn.close"]
    explained = {e[3]["link"] for e in w.trace.events if e[2] == "fault.fired" and e[3].get("k") in ("tcp.peer_fin", "tcp.peer_rst")}
    if "fin_at" in info:
        probes["c08.outage_over_tick"] = 1
    D_lo = D_hi = start + T
    ri = 0
    resets = 0
    judged_all = True
    guard = 0
    while guard < 200:
        guard += 1
        # responses before the deadline push it back
        moved = False
        while ri < len(resp) and resp[ri] < D_lo:
            if D_lo - resp[ri] < 0.1:
                judged_all = False
            D_lo = D_hi = resp[ri] + T
            ri += 1
            moved = True
        if moved:
            continue
        if ri < len(resp) and resp[ri] < D_hi + 0.1:
            judged_all = False  # a response inside the admissible window of the deadline
            break
        if D_hi >= end - 0.2:
            break
        # the link that is up when the deadline is reached (changes shortly before it are ambiguous)
        cands = [x for x in links if x["up"] <= D_lo - 0.1 and (x["close"] is None or x["close"] >= D_lo - 1e-6)]
        edges = [e for x in links for e in (x["up"], x["close"]) if e is not None and D_lo - 0.1 < e < D_lo - 1e-6]
        if edges or len(cands) > 1:
            judged_all = False
            break
        if not cands:
            judged_all = False  # no connection to reset when the deadline passes
            break
        l = cands[0]
        probes["c08.reset_expected"] = 1
        if resets >= 1:
            probes["c08.second_reset_expected"] = 1
            probes["c08.silence_after_reset"] = 1
        # the client must close this link within [D_lo, D_hi + 0.05]
        if l["close"] is None or not (D_lo - 1e-6 <= l["close"] <= D_hi + 0.05) or l["close_kind"] != "conn.close":
            V.append(viol("C08.missed_reset", {"deadline": [D_lo, D_hi], "link": l["id"], "closed_at": l["close"], "start": start, "timeout": T,
                                               "responses": resp[:10], "resets_before": resets}, after_reset=resets >= 1, had_response=ri > 0))
            break
        explained.add(l["id"])
        resets += 1
        nxt = next((x for x in links if x["up"] >= l["close"] - 1e-9 and x["id"] != l["id"]), None)
        if nxt is None:
            if info.get("slow_reconnect") and sc["end"] - l["close"] < 80.0:
                judged_all = False  # the (deliberately slow) reconnection is still under way when the run ends
                break
            V.append(viol("C08.no_reconnect_after_reset", {"closed_at": l["close"]}))
            break
        # "... and again after every earlier reset": the next window runs from the reset - from the moment the client started to
        # close the link to the moment that close was complete (a close can be held up by unflushed bytes) - and NOT from the
        # moment the new connection is up, however long the reconnection takes
        D_lo = l["close"] + T
        D_hi = max(l["close"], l["lost"] if l["lost"] is not None else l["close"]) + T + 0.05
        if nxt["up"] > D_hi - T + 1.0:
            probes["c08.slow_reconnect_after_reset"] = 1
    # spurious resets: client-initiated closes not explained by a deadline
    t_shutdown = next((c["t_call"] for c in w.calls if c["op"] in ("user.shutdown", "user.close", "user.hb_stop")), None)
    if judged_all and not V:
        for (tc, l) in closes:
            if l["id"] in explained or (t_shutdown is not None and tc >= t_shutdown) or tc >= end - 0.3:
                continue
            V.append(viol("C08.spurious_reset", {"closed_at": tc, "link": l["id"], "responses": resp[:10], "style": style}, style=style))
            break
    if w.verdict == "stepcap":
        V.append(viol("C08.stepcap", {}))
    return common.result(w, V, nontrivial=style != "all_prompt" or "blackhole_at" in info, probes=probes)


LEVEL_TEXT = (
    "Seeded search over heartbeat answer patterns and black holes across about an hour of simulated time per run, on initialised "
    "API objects of both generations and on a bare HeartbeatManager with custom interval/timeout: the version-request tick grid "
    "and the resets are compared with a reference deadline process derived from the property text. Sampled evidence."
)
LEVEL_NOTE = "Trusts the reference deadline process and the 50 ms / 0.1 s tolerances stated in the assumptions; the virtual clock makes 330 s deadlines exact."
TECHNIQUE = "deterministic simulation with virtual time (hours per run), injected silence / late answers / black-holed links, history check against a reference deadline process"
