"""C16 - Pending-message buffer is bounded and overflow is explicit."""

from __future__ import annotations

from harness import gen as G
from harness.world import World

from . import common, sendq
from .common import viol

ID = "C16"
TITLE = "Pending-message buffer is bounded and overflow is explicit"
LEVEL = "exploration"
RULE = (
    "seeded scenarios on a real AirTouchSocket whose link is down: 0..40 sends with lifetimes from {0.25,0.5,1,2,5,30} s at "
    "generated instants (biased to the expiry instants of earlier messages, exactly at / one epsilon before / after), sends "
    "before open and after close, then a connection at a generated instant; the reference is a list model of the pending "
    "buffer (purge expired, capacity 10); non-trivial = the run reached capacity or an expiry made room; distinct = trace shape"
)
COMPONENTS = {
    "real": ["pyairtouch.comms.socket.AirTouchSocket (send/_enqueue_message/_drain_message_queue)", "registries + encoders", "asyncio streams/tasks/timers"],
    "stub": ["clock/_run_once (SimLoop)", "TCP (SimNet)", "console = passive recorder", "user = scenario timeline"],
}
ASSUMPTIONS = [
    "a message is expired at t >= accept + lifetime (the property text: 'never at or after its lifetime has elapsed')",
    "all instants are dyadic rationals, so 'exactly at expiry' is an exact float comparison",
]
PROBES = ["c16.add_during_stalled_flush_then_reset", "c16.add_during_teardown_after_failed_flush", "c16.requeued_victim_expired", "c16.down_by_write_fault", "c16.add_at_connect_notification", "c16.expired_during_slow_flush", "c16.overflow", "c16.expiry_made_room", "c16.send_at_exact_expiry", "c16.not_open", "c16.expired_never_sent", "c16.connect_at_exact_expiry"]
LIFETIMES = [0.0, 0.25, 0.5, 1.0, 2.0, 5.0, 30.0]  # 0.0: expired the instant it is accepted (the edge of the lifetime domain)


def budget(tier: str) -> int:
    return 12000 if tier == "quick" else 1_000_000


def gen_after_fault(rng) -> dict:
    """The link goes down through a write fault (not from the start): the message whose write failed is either re-queued (it
    then holds one of the ten places) or dropped (it holds none); the bound for what follows is still ten."""
    gen = rng.choice([4, 5])
    msgs = sendq.distinct_messages(rng, gen, 16)
    retries = rng.choice([0, 0, 2])
    k = rng.choice([2, 3, 5])
    how = rng.choice(["write", "stall_rst"])
    # sometimes the victim is short-lived and the reconnection (one slow attempt instead of refusals) comes up just after
    # its lifetime has ended: re-queued or not, it is expired by then and must not be transmitted
    vlife = 30.0
    slow = None
    if retries and rng.random() < 0.5:
        vlife = rng.choice([0.5, 1.0, 1.5])
        slow = vlife + rng.choice([0.125, 0.25, 0.375])
    tl = [{"at": 0.0, "op": "user.open"}]
    if how == "write":
        tl.append({"at": 1.0 - G.EPS, "op": "net.fail_write", "nth": rng.choice([1, 2, 3]), "err": rng.choice(["EPIPE", "ECONNRESET"])})
        tl.append({"at": 1.0, "op": "user.send", "msg": msgs[0], "policy": {"retries": retries, "lifetime": vlife}, "victim": True})
        t_f = 1.0
    else:
        tl.append({"at": 1.0 - G.TICK, "op": "net.stall", "on": True})
        tl.append({"at": 1.0, "op": "user.send", "msg": msgs[0], "policy": {"retries": retries, "lifetime": vlife}, "victim": True})
        tl.append({"at": 1.125, "op": "net.rst"})
        t_f = 1.125
    knobs = {"latency": G.TICK, "first_packet_id": rng.choice([0, 250]),
             "fates": [{"kind": "accept", "latency": 0.0}] + [{"kind": "refuse", "latency": 0.0}] * k + [{"kind": "accept", "latency": 0.0}]}
    if slow is not None:
        knobs["fates"] = [{"kind": "accept", "latency": 0.0}, {"kind": "accept", "latency": slow}]
        k = 1
    n = rng.choice([9, 10, 11, 13])
    t = t_f + 0.25
    for d in msgs[1: 1 + n]:
        tl.append({"at": t, "op": "user.send", "msg": d, "policy": {"retries": rng.choice([0, 2]), "lifetime": 30.0}})
        t += rng.choice([G.TICK, 0.0625, 0.125])
    tl.sort(key=lambda s: s["at"])
    return {"gen": gen, "mode": "socket", "knobs": knobs, "timeline": tl, "end": t_f + 2.0 * k + 4.0, "class": "after_fault", "victim_retries": retries, "victim_life": vlife}


def exec_after_fault(sc: dict) -> dict:
    w = World(sc).run()
    V = []
    probes = {"c16.down_by_write_fault": 1}
    h = sendq.History(w)
    subs = sorted([s for s in h.subs if s["t_accept"] is not None], key=lambda s: s["seq_call"])
    victim_id = next((c["id"] for c in w.calls if c["step"].get("victim")), None)
    links = [l for l in w.net.links if l.t_accept is not None]
    fired = any(e[2] == "fault.fired" for e in w.trace.events)
    if victim_id is None or not fired or len(links) < 1:
        return common.result(w, V, nontrivial=False, probes=probes)
    t_down = next((e[1] for e in w.trace.events if e[2] in ("conn.force_close", "conn.lost")), None)
    held = 1 if sc["victim_retries"] > 0 else 0
    expect_tx = [victim_id] if held else []
    v0 = next((s for s in subs if s["id"] == victim_id), None)
    v_expiry = (v0["t_accept"] + sc.get("victim_life", 30.0)) if v0 is not None else 1e18
    v_counted = bool(held)
    buffered = {victim_id}
    for s in subs:
        if s["id"] == victim_id or t_down is None or s["t_accept"] <= t_down:
            continue
        if len(links) >= 2 and s["t_accept"] >= links[1].t_accept:
            continue
        buffered.add(s["id"])
        if v_counted and s["t_accept"] >= v_expiry:
            held -= 1  # the re-queued victim has expired: discarded first
            v_counted = False
        if held >= 10:
            probes["c16.overflow"] = 1
            if s["exc"] != "QueueOverflowError":
                V.append(viol("C16.no_overflow_error", {"sub": s["id"], "got": s["exc"], "held": held, "t": s["t_accept"], "after_write_fault": True}))
                break
            continue
        if s["exc"] is not None:
            V.append(viol("C16.spurious_error", {"sub": s["id"], "exc": s["exc"], "held": held, "t": s["t_accept"], "after_write_fault": True}, exc=s["exc"]))
            break
        held += 1
        expect_tx.append(s["id"])
    if not V and len(links) >= 2:
        v_sub = next((s for s in subs if s["id"] == victim_id), None)
        if v_sub is not None and victim_id in expect_tx and links[1].t_accept >= v_sub["t_accept"] + sc.get("victim_life", 30.0):
            expect_tx.remove(victim_id)  # expired while the link was down
            probes["c16.requeued_victim_expired"] = 1
        got = [f["sub"] for f in h.frames if f["link"] >= links[1].id and f.get("sub") in buffered]
        if got != expect_tx:
            missing = [i for i in expect_tx if i not in got]
            extra = [i for i in got if i not in expect_tx]
            V.append(viol("C16.held_lost" if missing else "C16.expired_or_rejected_sent" if extra else "C16.order",
                          {"want": expect_tx, "got": got, "missing": missing, "extra": extra, "after_write_fault": True}))
    return common.result(w, V, nontrivial=True, probes=probes, evals=max(1, len(subs)))


def gen_teardown_send(rng) -> dict:
    """A full (or nearly full) backlog meets a connection whose very first write fails; while the client tears that connection
    down, a connection subscriber submits one more message from inside its connected=False callback. The message whose
    write failed holds a place again if it is owed a retry - the bound of ten applies to that send too."""
    gen = rng.choice([4, 5])
    n = rng.choice([8, 9, 10, 10])
    msgs = sendq.distinct_messages(rng, gen, n + 1)
    head_retries = rng.choice([0, 2, 2])
    k = rng.choice([0, 1])
    knobs = {"latency": G.TICK, "first_packet_id": rng.choice([0, 250]),
             "fates": [{"kind": "refuse", "latency": 0.0}] * (1 + k) + [{"kind": "accept", "latency": 0.0}] + [{"kind": "refuse", "latency": 0.0}] * rng.choice([0, 1]) + [{"kind": "accept", "latency": 0.0}]}
    tl = [{"at": 0.0, "op": "user.open"},
          {"at": 0.0, "op": "user.send_on_connect", "when": "disconnected", "msg": msgs[n], "policy": {"retries": rng.choice([0, 2]), "lifetime": 30.0}},
          {"at": 0.25, "op": "net.fail_write", "nth": 1, "err": rng.choice(["EPIPE", "ECONNRESET", "ETIMEDOUT"])}]
    t = 0.5
    for i, d in enumerate(msgs[:n]):
        tl.append({"at": t, "op": "user.send", "msg": d, "policy": {"retries": head_retries if i == 0 else rng.choice([0, 2]), "lifetime": 30.0}})
        t += rng.choice([G.TICK, 0.0625])
    return {"gen": gen, "mode": "socket", "knobs": knobs, "timeline": tl, "end": 2.0 * (3 + k) + 6.0, "class": "teardown_send", "head_retries": head_retries, "n": n}


def exec_teardown_send(sc: dict) -> dict:
    w = World(sc).run()
    V = []
    probes = {}
    h = sendq.History(w)
    links = [l for l in w.net.links if l.t_accept is not None]
    fired = any(e[2] == "fault.fired" for e in w.trace.events)
    x_call = next((c for c in w.calls if c["step"].get("on_disconnect")), None)
    down = sorted([s for s in h.subs if s["t_accept"] is not None and not (x_call and s["id"] == x_call["id"])], key=lambda s: s["seq_call"])
    if not fired or len(links) < 2 or x_call is None or x_call["t_call"] is None or len(down) != sc["n"] or any(s["exc"] for s in down):
        return common.result(w, V, nontrivial=False, probes=probes)
    if not (links[0].t_accept <= x_call["t_call"] < links[1].t_accept):
        return common.result(w, V, nontrivial=False, probes=probes)
    probes["c16.add_during_teardown_after_failed_flush"] = 1
    held = sc["n"] if sc["head_retries"] > 0 else sc["n"] - 1
    x = next((s for s in h.subs if s["id"] == x_call["id"]), None)
    x_exc = type(x_call["exc"]).__name__ if x_call["exc"] is not None else None
    want = [s["id"] for s in (down if sc["head_retries"] > 0 else down[1:])]
    if held >= 10:
        probes["c16.overflow"] = 1
        if x_exc != "QueueOverflowError":
            V.append(viol("C16.no_overflow_error", {"sub": x_call["id"], "got": x_exc, "held": held, "t": x_call["t_call"], "during_teardown": True}))
    else:
        if x_exc is not None:
            V.append(viol("C16.spurious_error", {"sub": x_call["id"], "exc": x_exc, "held": held, "t": x_call["t_call"], "during_teardown": True}, exc=x_exc))
        else:
            want.append(x_call["id"])
    if not V:
        ids = {s["id"] for s in down} | {x_call["id"]}
        got = [f["sub"] for f in h.frames if f["link"] >= links[1].id and f.get("sub") in ids]
        if len(got) > 10:
            V.append(viol("C16.more_than_ten_held", {"got": got, "during_teardown": True}))
        elif got != want:
            missing = [i for i in want if i not in got]
            extra = [i for i in got if i not in want]
            V.append(viol("C16.held_lost" if missing else "C16.expired_or_rejected_sent" if extra else "C16.order",
                          {"want": want, "got": got, "missing": missing, "extra": extra, "during_teardown": True}))
    del x
    return common.result(w, V, nontrivial=True, probes=probes, evals=max(1, len(down) + 1))


def gen_stalled_flush_fault(rng) -> dict:
    """Ten messages wait for the link; the connection that takes them is under flow control from its first byte, so the flush
    stalls with the first message in flight; one more message is accepted during the stall; then the peer resets. The first
    message is owed a retry, the second (zero retries) is not: at most ten are held for the next connection."""
    gen = rng.choice([4, 5])
    msgs = sendq.distinct_messages(rng, gen, 12)
    T_c = 2.0
    knobs = {"latency": G.TICK, "first_packet_id": rng.choice([0, 250]),
             "fates": [{"kind": "refuse", "latency": 0.0}, {"kind": "accept", "latency": 0.0}, {"kind": "refuse", "latency": 0.0}, {"kind": "accept", "latency": 0.0}]}
    tl = [{"at": 0.0, "op": "user.open"}, {"at": 0.0, "op": "net.stall_next", "duration": 4.0}]
    t = 0.5
    for i, d in enumerate(msgs[:10]):
        tl.append({"at": t, "op": "user.send", "msg": d, "policy": {"retries": 2 if i == 0 else 0 if i == 1 else rng.choice([0, 2]), "lifetime": 30.0}, "role": "A" if i == 0 else "B" if i == 1 else "rest"})
        t += rng.choice([G.TICK, 0.0625])
    tl.append({"at": T_c + 0.25, "op": "user.send", "msg": msgs[10], "policy": {"retries": rng.choice([0, 2]), "lifetime": 30.0}, "role": "X"})
    tl.append({"at": T_c + 0.5, "op": "net.rst"})
    return {"gen": gen, "mode": "socket", "knobs": knobs, "timeline": tl, "end": T_c + 8.0, "class": "stalled_flush_fault"}


def exec_stalled_flush_fault(sc: dict) -> dict:
    w = World(sc).run()
    V = []
    probes = {}
    h = sendq.History(w)
    links = [l for l in w.net.links if l.t_accept is not None]
    role = {c["id"]: c["step"].get("role") for c in w.calls if c["op"] == "user.send"}
    subs = [s for s in h.subs if s["t_accept"] is not None]
    if len(links) < 2 or len(subs) != 11 or not any(e[2] in ("rx.rst", "conn.lost") for e in w.trace.events):
        return common.result(w, V, nontrivial=False, probes=probes)
    probes["c16.add_during_stalled_flush_then_reset"] = 1
    x = next(s for s in subs if role.get(s["id"]) == "X")
    if x["exc"] is not None:
        V.append(viol("C16.spurious_error", {"sub": x["id"], "exc": x["exc"], "held": 9, "t": x["t_accept"], "stalled_flush": True}, exc=x["exc"]))
    else:
        got = [f["sub"] for f in h.frames if f["link"] == links[-1].id and f.get("sub") in role]
        required = [s["id"] for s in sorted(subs, key=lambda s: s["seq_call"]) if role.get(s["id"]) != "B"]
        if len(got) > 10:
            V.append(viol("C16.more_than_ten_held", {"got": got, "stalled_flush": True}))
        elif [i for i in got if i in required] != required:
            missing = [i for i in required if i not in got]
            V.append(viol("C16.held_lost" if missing else "C16.order", {"want": required, "got": got, "missing": missing, "stalled_flush": True}))
    return common.result(w, V, nontrivial=True, probes=probes, evals=11)


def generate(rng, index: int, tier: str) -> dict:
    if rng.random() < 0.12:
        return gen_after_fault(rng)
    if rng.random() < 0.04:
        return gen_stalled_flush_fault(rng)
    if rng.random() < 0.06:
        return gen_teardown_send(rng)
    gen = rng.choice([4, 5])
    knobs = {"latency": G.TICK, "first_packet_id": rng.choice([0, 250])}
    n = rng.choice([3, 8, 11, 12, 14, 20, 30, 40])
    msgs = sendq.distinct_messages(rng, gen, n)
    t_open = rng.choice([0.0, 1.0])
    horizon = rng.choice([2.0, 6.0, 35.0])
    # the link stays down until T_c: one long connect latency (no 2 s retry noise) or refusals
    T_c = t_open + G.pick_time(rng, 0.5, horizon, anchors=[0.25, 0.5, 1.0, 2.0, 5.0, 30.0])
    if rng.random() < 0.5:
        knobs["fates"] = [{"kind": "accept", "latency": T_c - t_open}]
    else:
        k = int((T_c - t_open) // 2.0)
        knobs["fates"] = [{"kind": "refuse", "latency": 0.0}] * k + [{"kind": "accept", "latency": (T_c - t_open) - 2.0 * k}]
    tl = [{"at": t_open, "op": "user.open"}]
    # a slow flush: the connection that takes the backlog is under flow control from its first byte, so the messages
    # behind the first one are only written once the window opens - some of them past their lifetime by then
    stall = rng.choice([0.5, 2.0, 6.0]) if rng.random() < 0.3 else 0.0
    if stall:
        tl.append({"at": 0.0, "op": "net.stall_next", "duration": stall})
    expiries = []
    burst = rng.random() < 0.5
    for i, d in enumerate(msgs):
        life = rng.choice(LIFETIMES if not burst else [30.0, 30.0, 5.0, 1.0])
        lo = 0.0 if rng.random() < 0.1 else t_open
        at = G.pick_time(rng, lo, T_c + 1.0, anchors=expiries[-6:] + [T_c])
        if burst and i < 12:
            at = t_open + G.dyadic(rng, 0.0, 0.25)
        if stall and at > T_c:
            at += stall + 0.5  # nothing is submitted while the flush is suspended (the model below stays a list model)
        expiries.append(at + life)
        tl.append({"at": at, "op": "user.send", "msg": d, "policy": {"retries": rng.choice([0, 0, 2]), "lifetime": life}})
    if rng.random() < 0.3:
        # a connection subscriber submits a message from inside its connected=True callback (as the API classes do): the
        # socket is "connected" already, the held messages have not been flushed yet - expired ones still go first
        extra = sendq.distinct_messages(rng, gen, n + 1)[-1]
        if all(x.get("msg") != extra for x in tl):
            tl.append({"at": t_open, "op": "user.send_on_connect", "msg": extra, "policy": rng.choice(["connected", "idem"])})
    t_end = T_c + stall + 2.0
    if rng.random() < 0.3:
        t_close = T_c + stall + 1.0
        tl.append({"at": t_close, "op": "user.close"})
        for d in sendq.distinct_messages(rng, gen, 60)[-2:]:
            if all(x.get("msg") != d for x in tl):
                tl.append({"at": t_close + 0.5, "op": "user.send", "msg": d, "policy": "idem"})
        t_end = t_close + 2.0
    tl.sort(key=lambda s: s["at"])
    return {"gen": gen, "mode": "socket", "knobs": knobs, "timeline": tl, "end": t_end}


def execute(sc: dict) -> dict:
    if sc.get("class") == "after_fault":
        return exec_after_fault(sc)
    if sc.get("class") == "teardown_send":
        return exec_teardown_send(sc)
    if sc.get("class") == "stalled_flush_fault":
        return exec_stalled_flush_fault(sc)
    w = World(sc).run()
    V = []
    probes = {}
    h = sendq.History(w)
    ivs = h.connection_intervals()
    t_open = next((c["t_call"] for c in w.calls if c["op"] == "user.open"), None)
    t_close = next((c["t_ret"] for c in w.calls if c["op"] == "user.close"), None)
    T_c = ivs[0][0] if ivs else None
    # in the instant of the connection: a send ordered before the connection result is still a send on a down link
    seq_conn = next((e[0] for e in w.trace.events if e[2] == "net.connect_result" and e[3].get("ok")), None)
    pending = []  # (sub, expiry)
    expect_tx = []
    hit_capacity = made_room = False
    for s in sorted(h.subs, key=lambda s: s["seq_call"]):
        t = s["t_accept"]
        if t is None:
            continue
        is_open = t_open is not None and t >= t_open and (t_close is None or t < t_close)
        if (t_open is not None and t == t_open) or (t_close is not None and t == t_close):
            # same instant as open()/close(): either order is a legal schedule; take the observed one
            is_open = s["exc"] != "NotOpenError"
        if not is_open:
            probes["c16.not_open"] = 1
            if s["exc"] != "NotOpenError":
                V.append(viol("C16.not_open_error", {"sub": s["id"], "got": s["exc"], "t": t}))
            if s["tx"]:
                V.append(viol("C16.sent_though_not_open", {"sub": s["id"]}))
            continue
        on_connect = False
        if T_c is not None and t == T_c:
            c0 = next((c for c in w.calls if c["id"] == s["id"]), None)
            on_connect = bool(c0 and c0["step"].get("on_connect"))
        if on_connect:
            probes["c16.add_at_connect_notification"] = 1
        before_conn = T_c is not None and t == T_c and seq_conn is not None and s["seq_call"] is not None and s["seq_call"] < seq_conn
        if T_c is not None and t >= T_c and not on_connect and not before_conn:
            # connected: the buffer is not in play; message goes out (C01's concern)
            if t == T_c:
                continue
            if s["exc"] is not None:
                V.append(viol("C16.raise_while_connected", {"sub": s["id"], "exc": s["exc"]}))
            continue
        before = len(pending)
        if any(e == t for (_p, e) in pending):
            probes["c16.send_at_exact_expiry"] = 1
        pending = [(p, e) for (p, e) in pending if t < e]
        if len(pending) < before and before >= 10:
            made_room = True
        if len(pending) >= 10:
            hit_capacity = True
            if s["exc"] != "QueueOverflowError":
                V.append(viol("C16.no_overflow_error", {"sub": s["id"], "got": s["exc"], "held": len(pending), "t": t}))
            continue
        if s["exc"] is not None:
            V.append(viol("C16.spurious_error", {"sub": s["id"], "exc": s["exc"], "held": len(pending), "t": t}, exc=s["exc"]))
            continue
        pending.append((s, t + s["lifetime"]))
    if hit_capacity:
        probes["c16.overflow"] = 1
    if made_room:
        probes["c16.expiry_made_room"] = 1
    stall = next((st["duration"] for st in sc["timeline"] if st["op"] == "net.stall_next"), 0.0)
    if T_c is not None:
        now = T_c  # the instant at which the next held message is taken from the buffer
        for (s, e) in pending:
            if e == now:
                probes["c16.connect_at_exact_expiry"] = 1
            if now < e:
                expect_tx.append(s)
                if stall and now == T_c:
                    now = T_c + stall  # its write is held by flow control; the rest follow when the window opens
            else:
                probes["c16.expired_never_sent"] = 1
                if now > T_c:
                    probes["c16.expired_during_slow_flush"] = 1
        want = [s["id"] for s in expect_tx]
        # frames of buffered messages actually seen on the wire, in wire order
        oc_ids = {c["id"] for c in w.calls if c["step"].get("on_connect")}
        buffered_ids = {s["id"] for s in h.subs if s["t_accept"] is not None and (s["t_accept"] < T_c or (s["t_accept"] == T_c and (
            s["id"] in oc_ids or (seq_conn is not None and s["seq_call"] is not None and s["seq_call"] < seq_conn))))}
        got = [f["sub"] for f in h.frames if f.get("sub") in buffered_ids]
        if got != want:
            missing = [i for i in want if i not in got]
            extra = [i for i in got if i not in want]
            dup = len(got) != len(set(got))
            rule = "C16.held_lost" if missing else "C16.expired_or_rejected_sent" if extra else "C16.duplicate" if dup else "C16.order"
            V.append(viol(rule, {"want": want, "got": got, "T_c": T_c, "missing": missing, "extra": extra}))
    if h.unattributed:
        V.append(viol("C16.not_submitted", {"frame": h.unattributed[0]["raw"].hex()}))
    if w.verdict == "stepcap":
        V.append(viol("C16.stepcap", {}))
    return common.result(w, V, nontrivial=hit_capacity or made_room or bool(probes.get("c16.expired_never_sent")), probes=probes, evals=max(1, len(h.subs)))


LEVEL_TEXT = (
    "Seeded search over send/clock histories on the real socket with the link down, compared operation by operation with a "
    "ten-slot list model of the pending buffer (overflow error iff full after purging, expired never sent, held ones all "
    "sent in order after connecting, not-open error holds nothing). Sampled evidence."
)
LEVEL_NOTE = "Trusts the list model (derived from the property text) and the reference framing that attributes wire frames to submissions."
TECHNIQUE = "deterministic simulation with virtual clock; seeded history search against a small executable reference model of the pending buffer"
