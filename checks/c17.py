"""C17 - Unknown and malformed input is tolerated, never misread."""

from __future__ import annotations

from harness import framegen
from harness import gen as G
from harness.world import World
from ref import crc as refcrc

from . import common, readcmp
from .common import viol

ID = "C17"
TITLE = "Unknown and malformed input is tolerated, never misread"
LEVEL = "exploration"
RULE = (
    "seeded byte streams fed to the real receive path, five classes: (unknown) well-formed frames of every undefined type byte "
    "and undefined 0x1F / 0xC0 sub-type mixed with known frames - must be delivered as unsupported with identical payload on an "
    "undisturbed connection; (stride) AT5 status records with announced stride >= known layout; (mutated) valid frames with "
    "bit flips / byte changes in header, sub-header or payload and a recomputed CRC; (truncated) stream cut at any byte then "
    "FIN; (random) arbitrary bytes. The reference receiver (ref/wire*.py) run over the very same bytes says what may be "
    "delivered; afterwards a probe frame must be delivered. non-trivial = not a pure well-formed known stream; distinct = trace shape "
    "+ class + mutated field"
)
COMPONENTS = {
    "real": ["AirTouchSocket read loop", "header / message / sub-message decoders incl. Unsupported* fallbacks", "crc16", "asyncio streams"],
    "stub": ["clock/_run_once", "TCP delivery", "console = byte source"],
}
ASSUMPTIONS = [
    "a frame whose reference reading contains an undefined or not-available code may be rejected (connection reset) or delivered with the defined fields right",
    "after a malformed point the rest of that connection's bytes carry no obligation (the client resets the connection)",
]
PROBES = ["c17.same_unknown_type_repeated", "c17.names_do_not_add_up", "c17.partial_record", "c17.long_unknown_frame", "c17.longer_stride_repeated", "c17.declared_count_mismatch", "c17.unknown_type", "c17.unknown_ext_sub", "c17.unknown_cs_sub", "c17.longer_stride", "c17.mutated_len", "c17.mutated_type",
          "c17.mutated_payload", "c17.truncated", "c17.random", "c17.rejected_then_recovered"]


def budget(tier: str) -> int:
    return 12000 if tier == "quick" else 1_000_000


def _recrc(gen: int, fr: bytearray) -> bytes:
    start = 2 if gen == 4 else 14
    body = bytes(fr[start:-2])
    return bytes(fr[:-2]) + refcrc.crc_bytes(body)


def generate(rng, index: int, tier: str) -> dict:
    gen = rng.choice([4, 5])
    cls = rng.choice(["unknown", "unknown", "stride", "mutated", "mutated", "mutated", "truncated", "random"])
    if cls == "stride" and gen == 4:
        cls = "unknown"
    w = common.wire(gen)
    info = {"class": cls}
    frames = []
    if cls == "unknown":
        for _ in range(rng.choice([1, 2, 3, 5])):
            if rng.random() < 0.05:
                # "all payloads": an unknown frame far longer than anything defined (16-bit length field)
                f, k = framegen.long_frame(rng, gen, size=rng.choice(framegen.LONG_SIZES + framegen.HUGE_SIZES))
                info["long"] = True
            elif rng.random() < 0.07:
                f, k = framegen.foreign_address_frame(rng, gen)  # unknown addresses: another client's traffic on the link
                info["foreign_address"] = True
            elif rng.random() < 0.65:
                f, k = framegen.unknown_frame(rng, gen)
            else:
                f, k = framegen.frame(rng, gen)
            frames.append(f)
        if rng.random() < 0.15:
            # the same unknown type twice in a row (other payloads), right behind a frame of a known kind
            known = {0x1F, 0x2A, 0x2B, 0x2C, 0x2D, 0x36, 0x37} if gen == 4 else {0x1F, 0xC0}
            u = rng.choice([x for x in range(256) if x not in known])
            frames.append(framegen.frame(rng, gen)[0])
            for _ in range(rng.choice([2, 2, 3])):
                frames.append(w.frame(w.ADDR_CLIENT, w.ADDR_CONSOLE, rng.randrange(256), u, bytes(rng.randrange(256) for _ in range(rng.choice([0, 3, 6, 8])))))
            info["same_unknown_type_repeated"] = True
        if rng.random() < 0.15:
            # sweep all 256 type bytes over a few runs
            t = index % 256
            frames.append(w.frame(w.ADDR_CLIENT, w.ADDR_CONSOLE, 1, t, bytes(rng.randrange(256) for _ in range(rng.choice([0, 3]))))
                          if t not in ({0x1F, 0x2A, 0x2B, 0x2C, 0x2D, 0x36, 0x37} if gen == 4 else {0x1F, 0xC0}) else framegen.frame(rng, gen)[0])
        data = b"".join(frames)
    elif cls == "stride":
        from ref import wire5

        kind = rng.choice(["zone", "ac", "timer"])
        # one, or several in a row (a console with a longer layout sends every frame like that; what the client learnt from
        # the first one must not spoil the next)
        for rep in range(rng.choice([1, 1, 2, 3])):
            if rep and rng.random() < 0.3:
                kind = rng.choice(["zone", "ac", "timer"])
            extra = rng.choice([1, 2, 4, 9, 30])
            n = rng.choice([1, 2, 4])
            pad = lambda r, k: r[:k] + bytes(rng.randrange(256) for _ in range(extra))  # noqa: E731
            if kind == "zone":
                recs = [pad(wire5.enc_zone_status_record(dict(G.zone_state(rng, 5), zone=i)), 8) for i in range(n)]
                frames.append(wire5.f_cs(1 + rep, wire5.S_ZONE_STATUS, recs, rlen=8 + extra))
            elif kind == "ac":
                recs = [pad(wire5.enc_ac_status_record(dict(G.ac_state(rng, 5), ac=i), 8), 8) for i in range(n)]
                frames.append(wire5.f_cs(1 + rep, wire5.S_AC_STATUS, recs, rlen=8 + extra))
            else:
                recs = [pad(wire5.enc_timer_record({"ac": i, "on": G.timer(rng), "off": G.timer(rng)}), 9) for i in range(n)]
                frames.append(wire5.f_cs(1 + rep, wire5.S_TIMER_STATUS, recs, rlen=9 + extra))
        info["stride_frames"] = len(frames)
        frames.append(framegen.frame(rng, gen)[0])
        data = b"".join(frames)
        info["stride_extra"] = extra
    elif cls == "mutated":
        frames = [framegen.frame(rng, gen)[0] for _ in range(rng.choice([1, 2, 3]))]
        victim = rng.randrange(len(frames))
        fr = bytearray(frames[victim])
        hl = 8 if gen == 4 else 20
        where = rng.choice(["len", "type", "payload", "payload", "subhdr", "addr", "names", "nocrc"] + (["count", "count"] if gen == 5 else ["partial", "partial"]))
        if where == "nocrc":
            # damage that line noise would cause - the check bytes are NOT brought up to date: the type byte of a known frame
            # flipped (mostly into an unknown type), or an unknown-type frame with a damaged payload / check byte
            if rng.random() < 0.5:
                fr = bytearray(frames[victim])
                fr[hl - 3] ^= 1 << rng.randint(0, 7)
            else:
                fr = bytearray(framegen.unknown_frame(rng, gen)[0])
                pos = rng.randint(hl - 3, len(fr) - 1)
                fr[pos] ^= 1 << rng.randint(0, 7)
            frames[victim] = bytes(fr)
            data = b"".join(frames)
            info["where"] = where
        if where == "names":
            # a names answer whose records do not add up: the last name announces more bytes than the frame holds, the
            # frame ends inside the last name or right behind a zone number (AT4: not a whole number of 9-byte records);
            # header lengths and check bytes consistent
            wn = common.wire(gen)
            n = rng.choice([1, 2, 3, 5])
            body = bytearray(wn.enc_names({i: G.name(rng, 8 if gen == 4 else 16) or "Zone" for i in range(n)}))
            how = rng.choice(["cut", "cut1", "longer"]) if gen == 5 else rng.choice(["cut", "cut1"])
            if how == "cut" and len(body) > 3:
                body = body[: len(body) - rng.randint(1, min(5, len(body) - 2))]
            elif how == "cut1":
                body = body + bytes((n,))  # a dangling zone number
            else:
                # find the last record's length byte and enlarge it
                pos = 0
                last = 0
                while pos + 2 <= len(body):
                    last = pos + 1
                    pos += 2 + body[pos + 1]
                body[last] = min(255, body[last] + rng.choice([1, 2, 17, 200]))
            fr = bytearray(wn.f_ext(rng.randrange(256), wn.X_NAMES, bytes(body)))
            frames[victim] = bytes(fr)
        if where == "partial":
            # an AT4 status frame (fixed record size, no count field) whose payload is not a whole number of records - a record
            # cut short or a few stray bytes behind the last one - with length field and check bytes consistent
            from ref import wire4

            t, stride = rng.choice([(wire4.T_GROUP_STATUS, 6), (wire4.T_AC_STATUS, 8), (wire4.T_TIMER_STATUS, 8), (wire4.T_TIMER_CTRL, 8)])
            n = rng.choice([0, 1, 2, 3, 4])
            k = rng.choice([stride // 2, 1, stride - 1, rng.randint(1, stride - 1)])
            body = bytes(rng.randrange(256) for _ in range(n * stride + k))
            if t == wire4.T_GROUP_STATUS and n:
                body = b"".join(wire4.enc_group_status_record(dict(G.zone_state(rng, 4), group=i)) for i in range(n)) + body[n * stride:]
            fr = bytearray(wire4.f_status(rng.randrange(256), t, body))
            frames[victim] = bytes(fr)
        if where == "count":
            # an AT5 0xC0 frame whose declared record count disagrees with the records present, everything else consistent
            from ref import wire5

            kind = rng.choice(["zone", "zone", "ac", "timer"])
            n = rng.choice([1, 2, 2, 4])
            stride_extra = rng.choice([0, 0, 0, 3])
            pad = lambda r, k: r[:k] + bytes(rng.randrange(256) for _ in range(stride_extra))  # noqa: E731
            if kind == "zone":
                recs, sub, base = [pad(wire5.enc_zone_status_record(dict(G.zone_state(rng, 5), zone=i)), 8) for i in range(n)], wire5.S_ZONE_STATUS, 8
            elif kind == "ac":
                recs, sub, base = [pad(wire5.enc_ac_status_record(dict(G.ac_state(rng, 5), ac=i), 10), 10) for i in range(n)], wire5.S_AC_STATUS, 10
            else:
                recs, sub, base = [pad(wire5.enc_timer_record({"ac": i, "on": G.timer(rng), "off": G.timer(rng)}), 9) for i in range(n)], wire5.S_TIMER_STATUS, 9
            fr = bytearray(wire5.f_cs(rng.randrange(256), sub, recs, rlen=base + stride_extra))
            wrong = rng.choice([c for c in (0, n - 1, n + 1, n + 256, 65535, 2 * n) if c != n and c >= 0])
            fr[hl + 6: hl + 8] = wrong.to_bytes(2, "big")
            frames[victim] = bytes(fr)
        if where == "len":
            pos = hl - 1 if rng.random() < 0.7 else hl - 2
            fr[pos] = (fr[pos] + rng.choice([1, 2, 255, 254, 6, 8])) & 0xFF if rng.random() < 0.8 else rng.randrange(256)
            if gen == 5 and rng.random() < 0.7:
                # keep the outer lengths consistent with the new inner length
                dlen = (fr[18] << 8) | fr[19]
                tot = (10 + dlen + 2) & 0xFFFF
                fr[6:8] = tot.to_bytes(2, "big")
                fr[8:10] = tot.to_bytes(2, "big")
        elif where == "type":
            fr[hl - 3] = rng.randrange(256)
        elif where == "addr":
            fr[(2 if gen == 4 else 14) + rng.randint(0, 2)] = rng.randrange(256)
        elif where == "subhdr" and len(fr) > hl + 4:
            pos = hl + rng.randint(0, min(7, len(fr) - hl - 3))
            fr[pos] = rng.randrange(256) if rng.random() < 0.5 else fr[pos] ^ (1 << rng.randint(0, 7))
        elif len(fr) > hl + 2:
            for _ in range(rng.choice([1, 1, 2, 5])):
                pos = rng.randint(hl, len(fr) - 3)
                fr[pos] = rng.randrange(256) if rng.random() < 0.5 else fr[pos] ^ (1 << rng.randint(0, 7))
        if where != "nocrc":
            frames[victim] = _recrc(gen, fr)
        data = b"".join(frames)
        info["where"] = where
    elif cls == "truncated":
        frames = [framegen.frame(rng, gen)[0] for _ in range(rng.choice([1, 2, 3]))]
        data = b"".join(frames)
        data = data[: rng.randint(1, len(data) - 1)]
        if rng.random() < 0.4:
            data += framegen.frame(rng, gen)[0]  # more bytes follow the hole
    else:
        n = rng.choice([1, 7, 8, 19, 20, 21, 64, 300])
        data = bytes(rng.randrange(256) for _ in range(n))
        if rng.random() < 0.5:
            data = (b"\x55\x55" if gen == 4 else b"\x55\x55\x55\xab\x00\x00") + data
    knobs = {"latency": rng.choice([0.0, G.TICK]), "seg": rng.choice([{"mode": "whole"}, {"mode": "random", "seed": rng.getrandbits(16), "max": 4}, {"mode": "bytes"}])}
    probe = framegen.frame(rng, gen, "version")[0]
    tl = [{"at": 0.0, "op": "user.open"}, {"at": 1.0, "op": "console.raw", "hex": data.hex(), "input": True}]
    if cls in ("mutated", "truncated", "random"):
        tl.append({"at": 2.0, "op": "net.fin"})
    tl.append({"at": 7.0, "op": "console.raw", "hex": probe.hex(), "probe": True})
    return {"gen": gen, "mode": "socket", "knobs": knobs, "timeline": tl, "end": 9.0, "info": info}


def execute(sc: dict) -> dict:
    gen = sc["gen"]
    wire = common.wire(gen)
    w = World(sc)
    w.console.silent = True
    w.run()
    V = []
    probes = {}
    info = sc.get("info", {})
    cls = info.get("class", "?")
    inp = next((st for st in sc["timeline"] if st.get("input")), None)
    prb = next((st for st in sc["timeline"] if st.get("probe")), None)
    opened = any(c["op"] == "user.open" and c["t_call"] is not None for c in w.calls)
    if inp is None or not opened:
        return common.result(w, V, nontrivial=False)
    data = bytes.fromhex(inp["hex"])
    frames, verdict, consumed = wire.parse_stream(data)
    t_in = inp["at"]
    t_pr = prb["at"] if prb else 1e9
    got = [m for m in w.messages if t_in <= m["t"] < t_pr]
    refs = [wire.read(f) for f in frames]
    if any(len(f["raw"]) > 1040 for f in frames):
        probes["c17.long_unknown_frame"] = 1
    for r in refs:
        if r["kind"] == "unknown":
            probes["c17.unknown_type"] = 1
        elif r["kind"] == "ext_unknown":
            probes["c17.unknown_ext_sub"] = 1
        elif r["kind"] == "cs_unknown":
            probes["c17.unknown_cs_sub"] = 1
    if cls == "stride":
        probes["c17.longer_stride"] = 1
        if info.get("stride_frames", 1) > 1:
            probes["c17.longer_stride_repeated"] = 1
    if cls == "mutated":
        probes["c17.mutated_" + {"len": "len", "type": "type"}.get(info.get("where"), "payload")] = 1
    if cls in ("truncated", "random"):
        probes["c17." + cls] = 1
    if info.get("where") == "partial":
        probes["c17.partial_record"] = 1
    if info.get("where") == "names":
        probes["c17.names_do_not_add_up"] = 1
    if info.get("same_unknown_type_repeated"):
        probes["c17.same_unknown_type_repeated"] = 1
    # 1. nothing beyond what the reference receiver finds
    if len(got) > len(refs):
        V.append(viol("C17.delivered_from_malformed", {"reference_frames": len(refs), "delivered": len(got), "verdict": verdict,
                                                       "extra": repr(got[len(refs)]["reading"])[:300]}))
    # 2. what is delivered means what the bytes mean
    for i, (r, m) in enumerate(zip(refs, got)):
        if r["kind"] == "undef" and r.get("why") == "0xC0 lengths disagree":
            # the sub-header contradicts the frame's own length: whatever the client makes of it, a status / control message
            # with another number of records than the frame declares is not what these bytes say
            recs = next((v for k, v in m["reading"].items() if isinstance(v, list) and k in ("zones", "acs", "timers")), None)
            probes["c17.declared_count_mismatch"] = 1
            if recs is not None and len(recs) != r["rcount"]:
                V.append(viol("C17.misread", {"frame": frames[i]["raw"].hex(), "declared_records": r["rcount"], "delivered_records": len(recs),
                                              "delivered_kind": m["reading"]["kind"]}, kind=m["reading"]["kind"], at="record_count"))
                break
        if r["kind"] == "undef" and r.get("structural") == "names" and m["reading"].get("kind") == "names":
            # the records of this names answer do not add up to the frame: a names message made from it (last name clipped,
            # or the dangling bytes dropped) is not what these bytes say
            V.append(viol("C17.misread", {"frame": frames[i]["raw"].hex(), "why": r.get("why"), "delivered": repr(m["reading"])[:200]}, kind="names", at="structure"))
            break
        if r["kind"] == "undef" and r.get("partial_record"):
            # the payload is not a whole number of records: a status / control message made from the whole records in front
            # (the rest silently dropped) is not what these bytes say
            recs = next((v for k, v in m["reading"].items() if isinstance(v, list) and k in ("groups", "acs", "timers")), None)
            if recs is not None:
                V.append(viol("C17.misread", {"frame": frames[i]["raw"].hex(), "payload_bytes": r["nbytes"], "record_size": r["stride"], "delivered_records": len(recs),
                                              "delivered_kind": m["reading"]["kind"]}, kind=m["reading"]["kind"], at="partial_record"))
                break
        d = readcmp.compare(gen, r, m["reading"])
        hard = [x for x in d if x["cls"] != "sentinel"]
        if hard:
            V.append(viol("C17.misread", {"frame": frames[i]["raw"].hex(), "diffs": hard[:4], "reference": repr(r)[:300]}, kind=r["kind"], at=hard[0]["at"].split("[")[0]))
            break
    # 3. must-deliver obligations
    if cls in ("unknown", "stride") and verdict == "clean":
        must = True
        for i, r in enumerate(refs):
            if i >= len(got):
                fully_defined = not _has_undef(r)
                if r["kind"] in ("unknown", "ext_unknown", "cs_unknown") or (cls == "stride" and i < info.get("stride_frames", 1)) or fully_defined:
                    if must:
                        V.append(viol("C17.not_delivered", {"frame": frames[i]["raw"].hex(), "reference": repr(r)[:300], "delivered": len(got), "of": len(refs)}, kind=r["kind"]))
                break
            if _has_undef(r):
                must = must  # a frame with undefined codes may legally reset the connection
        if len(got) == len(refs) and len(w.net.links) != 1:
            V.append(viol("C17.connection_disturbed", {"links": len(w.net.links)}))
    # 4. the receive task never dies with an unhandled exception; the client recovers
    if w.final.get("exceptions"):
        V.append(viol("C17.unhandled_exception", {"contexts": w.final["exceptions"][:3]}))
    if prb is not None:
        delivered = any(m["t"] >= t_pr and m["reading"]["kind"] == "version" for m in w.messages)
        if not delivered:
            V.append(viol("C17.no_recovery", {"why": "probe frame after the input was not delivered", "links": len(w.net.links),
                                              "live_tasks": w.final.get("live_tasks")}, cls=cls))
        elif len(w.net.links) > 1:
            probes["c17.rejected_then_recovered"] = 1
    if w.verdict == "stepcap":
        V.append(viol("C17.livelock", {}))
    res = common.result(w, V, nontrivial=cls != "unknown" or any(r["kind"].endswith("unknown") for r in refs), probes=probes)
    res["shape"] = res["shape"] + ":" + cls + ":" + str(info.get("where", ""))
    return res


def _has_undef(r) -> bool:
    if isinstance(r, dict):
        return any(_has_undef(v) for v in r.values())
    if isinstance(r, list):
        return any(_has_undef(v) for v in r)
    return r in ("undef", "na")


LEVEL_TEXT = (
    "Seeded search over unknown, over-long, mutated (CRC recomputed), truncated and random byte streams fed to the real receive "
    "path; an independent reference receiver run over the same bytes bounds what may be delivered and what each delivered "
    "message must say; unknown types must come through unchanged on an undisturbed connection; a probe after every input shows "
    "the client recovered. Sampled evidence."
)
LEVEL_NOTE = "Trusts ref/wire*.py as the meaning of bytes per the vendor documents (undocumented timer messages per spec/undocumented_messages.md)."
TECHNIQUE = "deterministic simulation feeding seeded malformed/unknown byte streams (mutation with recomputed CRC, truncation + FIN, random) through the real read loop; differential check against a reference receiver; recovery probe"
