"""C19 - The unified API behaves the same over AirTouch 4 and AirTouch 5."""

from __future__ import annotations

import copy
import hashlib

from harness import gen as G
from harness.world import World
from ref import apispec
from ref import model as refmodel

from . import apicalls, common
from .common import viol

ID = "C19"
TITLE = "The unified API behaves the same over AirTouch 4 and AirTouch 5"
LEVEL = "exploration"
RULE = (
    "twin runs: one abstract installation (1..4 ACs, 1..8 zones in contiguous ranges, ASCII names, integer limits identical for "
    "heat and cool) and one abstract history (console state changes with integer set-points and common enums; public API calls "
    "with integer temperatures) are compiled to an AirTouch 4 and an AirTouch 5 reference console; the two real clients are "
    "driven by the same timeline. Compared: every getter both generations support at the same instants, the accept / reject "
    "decision of every call, and the abstract meaning (reference decoders of the respective wire format) of every accepted "
    "call; documented differences are masked explicitly. non-trivial = at least two API calls and two console steps; distinct = "
    "trace shape of the AT5 run"
)
COMPONENTS = common.COMPONENTS_API
ASSUMPTIONS = [
    "masked (documented) differences: model, set-point resolution, supported power controls (away / sleep), intelligent auto fan speed, bypass reporting, per-mode limits (made equal by construction), zone control-method side effect of set-point / damper calls, zone supported power states (AT4 zones advertise turbo support), target temperature of sensorless zones",
    "histories use values expressible in both protocols only",
]
PROBES = ["c19.single_ac_unowned_zone", "c19.named_zone_not_yet_reported", "c19.write_fault_on_both", "c19.api_call_compared", "c19.reject_compared", "c19.snapshot_compared", "c19.auto_heat_cool", "c19.multi_ac"]
MASK_AC = {"target_temperature_resolution", "supported_power_controls"}
MASK_ZONE = {"target_temperature_resolution", "supported_power_states"}


def budget(tier: str) -> int:
    return 2500 if tier == "quick" else 200_000


MODES = ["auto", "heat", "dry", "fan", "cool"]
FANS = ["auto", "quiet", "low", "medium", "high", "powerful", "turbo"]


def _abstract_ac_state(rng):
    return {"power": rng.choice(["off", "on"]), "mode": rng.choice(MODES + ["auto_heat", "auto_cool"]), "fan": rng.choice(FANS),
            "setpoint": rng.randint(14, 32), "temp": (rng.randint(400, 900) - 500) / 10, "spill": rng.random() < 0.3, "timer": rng.random() < 0.3,
            "error": rng.choice([0, 0, 0, 7, 7, 9])}


def _abstract_zone_state(rng):
    sensor = rng.random() < 0.6
    return {"power": rng.choice(["off", "on", "turbo"]), "method": rng.choice(["damper", "temperature"]), "percent": rng.randint(0, 20) * 5,
            "battery_low": rng.random() < 0.2, "setpoint": rng.randint(14, 32) if sensor else None, "sensor": sensor,
            # a fitted sensor whose reading is unavailable (dropped out) is a state both protocols can express
            "temp": (rng.randint(400, 900) - 500) / 10 if sensor and rng.random() < 0.85 else None, "spill": rng.random() < 0.2}


def _to4_zone(z):
    return {"power": z["power"], "method": z["method"], "percent": z["percent"], "battery_low": z["battery_low"], "turbo_support": True,
            "setpoint": z["setpoint"] if z["setpoint"] is not None else 0, "sensor": z["sensor"], "temp": z["temp"], "spill": z["spill"]}


def _to5_zone(z):
    return {"power": z["power"], "method": z["method"], "percent": z["percent"], "setpoint": float(z["setpoint"]) if z["setpoint"] is not None else None,
            "sensor": z["sensor"], "temp": z["temp"], "spill": z["spill"], "battery_low": z["battery_low"]}


def _to4_ac(a):
    return dict(a)


def _to5_ac(a):
    return {"power": a["power"], "mode": a["mode"], "fan": a["fan"], "setpoint": float(a["setpoint"]), "turbo": False, "bypass": False,
            "spill": a["spill"], "timer": a["timer"], "temp": a["temp"], "error": a["error"]}


def generate(rng, index: int, tier: str) -> dict:
    n_acs = rng.choice([1, 1, 2, 3, 4])
    n_zones = rng.choice([1, 2, 4, 6, 8])
    cuts = sorted(rng.randint(0, n_zones) for _ in range(n_acs - 1))
    bounds = [0] + cuts + [n_zones]
    acs4, acs5 = [], []
    fmt = rng.choice(["bitmap", "range"]) if n_acs > 1 else rng.choice(["bitmap", "range", "single"])
    unowned = 0
    if n_acs == 1 and n_zones > 1 and fmt == "bitmap" and rng.random() < 0.35:
        # the only AC does not own every named zone (AirTouch 4: zone bitmap without the last zones; AirTouch 5: a zone count
        # below the number of names): what the AC is shown to own is the same on both generations
        unowned = rng.randint(1, n_zones - 1)
        bounds = [0, n_zones - unowned]
    # AC numbers need not start at 0 nor be contiguous
    ac_ids = list(range(n_acs)) if rng.random() < 0.6 else sorted(rng.sample(range(4), n_acs))
    for i in range(n_acs):
        name = rng.choice(["UNIT", "Daikin", "Upstairs", "A"]) + str(i)
        modes = G.subset(rng, MODES, p_all=0.5, min_n=1)
        fans = G.subset(rng, FANS, p_all=0.5, min_n=1)
        lo, hi = rng.randint(14, 18), rng.randint(28, 32)
        st = _abstract_ac_state(rng)
        tm = {"on": G.timer(rng), "off": G.timer(rng)}
        rng_z = list(range(bounds[i], bounds[i + 1]))
        a4 = {"ac": ac_ids[i], "name": name, "modes": modes, "fans": fans, "min_sp": lo, "max_sp": hi, "start_group": bounds[i], "group_count": len(rng_z),
              "groups": rng_z if fmt == "bitmap" else None, "state": _to4_ac(st), "timer": copy.deepcopy(tm)}
        a5 = {"ac": ac_ids[i], "name": name, "modes": modes, "fans": fans, "min_cool": lo, "max_cool": hi, "min_heat": lo, "max_heat": hi,
              "start_zone": bounds[i], "zone_count": len(rng_z), "state": _to5_ac(st), "timer": copy.deepcopy(tm)}
        if st["error"]:
            a4["errtext"] = a5["errtext"] = "E%d" % st["error"]
        acs4.append(a4)
        acs5.append(a5)
    z4, z5 = [], []
    for z in range(n_zones):
        nm = rng.choice(["Living", "Kitchen", "Bed", "Study", "Bath"])[:7] + str(z % 10)
        st = _abstract_zone_state(rng)
        z4.append({"zone": z, "name": nm, "state": _to4_zone(st)})
        z5.append({"zone": z, "name": nm, "state": _to5_zone(st)})
    versions = rng.choice([["1.3.3"], ["1.3.3", "1.2.0"]])
    upd = rng.random() < 0.3
    inst4 = {"gen": 4, "acs": acs4, "zones": z4, "ability_format": fmt, "versions": versions, "update": upd}
    inst5 = {"gen": 5, "acs": acs5, "zones": z5, "versions": versions, "update": upd, "ac_stride": 10, "zone_stride": 8, "timer_stride": 9}
    tl4 = [{"at": 0.0, "op": "user.init"}]
    tl5 = [{"at": 0.0, "op": "user.init"}]
    unrep = None
    if n_zones > 1 and rng.random() < 0.12:
        # one zone is named by the console but missing from every zone status for a while (the status answer of the
        # handshake carries the others): what the client shows for it meanwhile is the same on both generations
        unrep = rng.randrange(n_zones)
        t_rep = 6.0 + 0.5 * rng.randint(2, 8) + 0.25
        for tl in (tl4, tl5):
            tl.append({"at": 0.0, "op": "console.unreported", "zones": [unrep]})
            tl.append({"at": t_rep, "op": "console.unreported", "zones": []})
            tl.append({"at": t_rep, "op": "console.publish", "what": "zone", "ids": None})
    t = 6.0
    n = rng.choice([4, 8, 16])
    if rng.random() < 0.25:
        # a console that receives timer commands but does not act on them: what the client shows must stay what the console
        # last reported, on both generations alike
        for tl in (tl4, tl5):
            tl.append({"at": 5.9, "op": "console.ignore", "kinds": ["timer_control", "quick_timer"]})
    cur_upd = upd
    info_faults = []
    for _ in range(n):
        r = rng.random()
        if r < 0.1:
            # the console announces its versions again: the list may change with or without the update flag changing
            vs = rng.choice([["1.3.3"], ["1.3.3", "1.2.0"], ["1.4.0"], ["1.4.0", "1.3.3"], ["2.0.1", "2.0.1"]])
            if rng.random() < 0.4:
                cur_upd = not cur_upd
            for tl in (tl4, tl5):
                tl.append({"at": t, "op": "console.version", "versions": list(vs), "update": cur_upd})
        elif r < 0.45:
            k = rng.random()
            if k < 0.45:
                ac = rng.choice(ac_ids)
                full = _abstract_ac_state(rng)
                keys = rng.sample(sorted(full), rng.randint(1, 4))
                f = {x: full[x] for x in keys}
                if "error" in keys:
                    # the console describes the error it currently reports (asked for by the client, not pushed)
                    for tl in (tl4, tl5):
                        tl.append({"at": t, "op": "console.errtext", "ac": ac, "text": ("E%d" % full["error"]) if full["error"] else None, "publish": False})
                tl4.append({"at": t, "op": "console.set", "entity": ["ac", ac], "fields": {x: _to4_ac(full)[x] for x in keys}})
                tl5.append({"at": t, "op": "console.set", "entity": ["ac", ac], "fields": {x: _to5_ac(full)[x] for x in keys}})
                del f
            elif k < 0.85:
                z = rng.randrange(n_zones)
                full = _abstract_zone_state(rng)
                tl4.append({"at": t, "op": "console.set", "entity": ["zone", z], "fields": _to4_zone(full)})
                tl5.append({"at": t, "op": "console.set", "entity": ["zone", z], "fields": _to5_zone(full)})
            else:
                ac = rng.choice(ac_ids)
                which = rng.choice(["on", "off"])
                tm = G.timer(rng)
                for tl in (tl4, tl5):
                    tl.append({"at": t, "op": "console.set", "entity": ["timer", ac], "fields": {which: dict(tm)}, "only": False})
        else:
            inst_view = {"acs": [{"ac": i} for i in ac_ids], "zones": [{"zone": z} for z in range(n_zones)]}
            c = apicalls.one_call(rng, 5, inst_view, "c04")
            if c["call"] == "set_target_temperature":
                c["args"]["temperature"] = float(rng.randint(10, 35))
            if c["call"] == "set_power" and c["args"].get("ac_power") in ("SET_TO_AWAY", "SET_TO_SLEEP"):
                c["args"]["ac_power"] = rng.choice(["TOGGLE", "TURN_ON", "TURN_OFF"])
            if rng.random() < 0.12:
                # the write of this command fails on both generations (the peer resets, the client reconnects at once): what
                # is sent again afterwards - and what is not - belongs to the request's meaning as well
                for tl in (tl4, tl5):
                    tl.append({"at": t - 2.0**-10, "op": "net.fail_write", "nth": 1, "err": "EPIPE"})
                info_faults.append(t)
            for tl in (tl4, tl5):
                tl.append(dict(copy.deepcopy(c), at=t, op="user.api"))
        for tl in (tl4, tl5):
            tl.append({"at": t + 0.375, "op": "user.snapshot", "label": "s"})
        t += 0.5
    lat = rng.choice([0.0, G.TICK, 2.0**-7])
    mk = lambda gen, inst, tl: {"gen": gen, "mode": "api", "installation": inst, "knobs": {"latency": lat, "seg": {"mode": "whole"}}, "timeline": tl, "end": t + 1.0}  # noqa: E731
    t_rep_v = None
    if unrep is not None:
        t_rep_v = t_rep
        # nothing is asked of, or changed on, the zone the client has not been told about yet
        def _hits(x):
            return x["at"] < t_rep and ((x["op"] == "user.api" and x.get("target") == ["zone", unrep]) or (x["op"] == "console.set" and x.get("entity") == ["zone", unrep]))
        tl4[:] = [x for x in tl4 if not _hits(x)]
        tl5[:] = [x for x in tl5 if not _hits(x)]
    for tl in (tl4, tl5):
        tl.sort(key=lambda x: x["at"])
    return {"gen": 45, "unreported_until": t_rep_v, "s4": mk(4, inst4, tl4), "s5": mk(5, inst5, tl5), "timeline": tl5, "knobs": {}, "write_faults": info_faults, "unreported_zone": unrep, "unowned_zones": unowned}


def _abstract_cmd(gen: int, r: dict):
    """Common abstract meaning of a command frame (reference reading)."""
    k = r["kind"]
    if k == "ac_control":
        c = r if gen == 4 else r["acs"][0]
        sp = None
        if gen == 4 and c["sp_type"] == "set":
            sp = float(c["sp_value"])
        if gen == 5 and c["sp_ctrl"] == "set":
            sp = c["setpoint"]
        return ("ac", c["ac"], c["power"], c["mode"], c["fan"], sp)
    if k in ("group_control", "zone_control"):
        c = r if gen == 4 else r["zones"][0]
        z = c.get("group", c.get("zone"))
        val = None
        if c["setting"] == "percent":
            val = ("percent", c["value"])
        elif c["setting"] == "setpoint":
            val = ("setpoint", float(c["value"]) if gen == 4 else (c["value"] + 100) / 10)
        return ("zone", z, c["power"], val)
    if k == "quick_timer":
        return ("quick_timer", r["ac"], r["type"], r["hours"], r["minutes"])
    if k == "timer_control":
        return ("timer_control",) + tuple((t["ac"], tuple(sorted(t["on"].items())) if not t["on"]["disabled"] else "off", tuple(sorted(t["off"].items())) if not t["off"]["disabled"] else "off")
                                          for t in r["timers"] if gen == 5 or t["ac"] == r.get("_target", t["ac"]))
    if k == "version_request":
        return ("version_request",)
    return (k,)


def _norm_snap(snap: dict, method_touched=(), timers_masked=()) -> dict:
    out = {"top": {k: snap[k] for k in ("initialised", "airtouch_id", "serial", "name", "host", "update_available", "console_versions")}, "acs": {}, "zones": {}}
    for ac, a in snap["acs"].items():
        d = {k: v for k, v in a.items() if k not in MASK_AC}
        for k in ("supported_modes", "supported_fan_speeds", "zones"):
            d[k] = sorted(d[k]) if isinstance(d.get(k), list) else d.get(k)
        if ac in timers_masked or str(ac) in timers_masked:
            d = {k: v for k, v in d.items() if "timer" not in k}
        out["acs"][ac] = d
    for z, zz in snap["zones"].items():
        d = {k: v for k, v in zz.items() if k not in MASK_ZONE}
        if not zz.get("has_temp_sensor"):
            d.pop("target_temperature", None)
        if z in method_touched:
            d.pop("control_method", None)
        out["zones"][z] = d
    return out


def _eq(a, b) -> bool:
    if isinstance(a, dict) and isinstance(b, dict):
        return a.keys() == b.keys() and all(_eq(a[k], b[k]) for k in a)
    if isinstance(a, list) and isinstance(b, list):
        return len(a) == len(b) and all(_eq(x, y) for x, y in zip(a, b))
    if isinstance(a, (int, float)) and isinstance(b, (int, float)) and not isinstance(a, bool) and not isinstance(b, bool):
        return abs(a - b) < 1e-9
    return a == b


def _first_diff(a, b, path=""):
    if isinstance(a, dict) and isinstance(b, dict):
        for k in sorted(set(a) | set(b), key=str):
            if k not in a or k not in b:
                return f"{path}/{k}", a.get(k), b.get(k)
            d = _first_diff(a[k], b[k], f"{path}/{k}")
            if d:
                return d
        return None
    return None if _eq(a, b) else (path, a, b)


def execute(sc: dict) -> dict:
    w4 = World(sc["s4"]).run()
    w5 = World(sc["s5"]).run()
    V = []
    probes = {}
    i4 = next((c for c in w4.calls if c["op"] == "user.init"), None)
    i5 = next((c for c in w5.calls if c["op"] == "user.init"), None)
    res5 = None
    if not (i4 and i5 and i4["result"] is True and i5["result"] is True):
        res = common.result(w5, V, nontrivial=False)
        res["digest"] = hashlib.sha256((w4.trace.digest() + w5.trace.digest()).encode()).hexdigest()
        return res
    if len(sc["s4"]["installation"]["acs"]) > 1:
        probes["c19.multi_ac"] = 1
    if sc.get("write_faults"):
        probes["c19.write_fault_on_both"] = 1
    if sc.get("unreported_zone") is not None:
        probes["c19.named_zone_not_yet_reported"] = 1
    if sc.get("unowned_zones"):
        probes["c19.single_ac_unowned_zone"] = 1
    # An AT4 timer command that leaves BOTH timers of the named AC enabled at 00:00 is an all-zero record, which the
    # reference console reads as "AC not named" (spec/undocumented_messages.md): such a command is not expressible in the
    # AT4 wire format, so the timers of that AC leave the comparison from that call on (the command's meaning is still compared).
    zero_t = {"disabled": False, "hour": 0, "minute": 0}
    ambiguous = []
    api4 = [c for c in w4.calls if c["op"] == "user.api" and c["seq_call"] is not None]
    for n, c in enumerate(api4):
        if c["step"]["call"] in ("set_quick_timer", "clear_quick_timer") and c["exc"] is None:
            ac_named = c["step"]["target"][1]
            hi_seq = api4[n + 1]["seq_call"] if n + 1 < len(api4) else 10**12
            for f in common.client_frames(w4):
                r = f["reading"]
                if c["seq_call"] < f["seq"] < hi_seq and r["kind"] == "timer_control" and any(x["ac"] == ac_named and x["on"] == zero_t and x["off"] == zero_t for x in r["timers"]):
                    ambiguous.append((c["step"]["at"], ac_named))
                    probes["c19.at4_both_midnight_inexpressible"] = 1
                    break
    # getters
    api_steps = sorted((st["at"], st) for st in sc["s5"]["timeline"] if st["op"] == "user.api")
    for (t4, _l4, s4), (t5, _l5, s5) in zip(w4.snapshots, w5.snapshots):
        probes["c19.snapshot_compared"] = 1
        # documented difference: AT4 set-point / damper calls also select the control method
        touched = {st["target"][1] for (at, st) in api_steps if at <= t4 and st["target"][0] == "zone" and st["call"] in ("set_target_temperature", "set_damper_percentage")}
        tmask = {ac for (at, ac) in ambiguous if at <= t4}
        n4, n5 = _norm_snap(s4, touched, tmask), _norm_snap(s5, touched, tmask)
        uz = sc.get("unreported_zone")
        if uz is not None and t4 < (sc.get("unreported_until") or 0) + 0.5:
            # a zone the console has named but not yet reported: only what does not depend on a report is compared (AT4 learns
            # turbo support, sensor and the rest from the status record, AT5 has no turbo flag at all)
            for n in (n4, n5):
                for key in [k for k in n["zones"] if str(k) == str(uz)]:
                    n["zones"][key] = {a: v for a, v in n["zones"][key].items() if a in ("zone_id", "name", "current_temperature")}
        d = _first_diff(n4, n5)
        if d:
            V.append(viol("C19.getter_differs", {"t": t4, "where": d[0], "at4": repr(d[1])[:200], "at5": repr(d[2])[:200]}, attr=d[0].split("/")[-1]))
            break
        if any(a.get("active_mode") != a.get("selected_mode") for a in s4["acs"].values()):
            probes["c19.auto_heat_cool"] = 1
    # calls
    c4 = [c for c in w4.calls if c["op"] == "user.api"]
    c5 = [c for c in w5.calls if c["op"] == "user.api"]
    f4 = common.client_frames(w4)
    f5 = common.client_frames(w5)

    def cmd_frames(frames, calls, i):
        lo = calls[i]["seq_call"]
        hi = calls[i + 1]["seq_call"] if i + 1 < len(calls) else 10**12
        st = calls[i]["step"]
        return [f for f in frames if lo < f["seq"] < hi and (not f["reading"]["kind"].endswith("_request") or (st["call"] == "check_for_updates" and f["reading"]["kind"] == "version_request"))]

    for i, (a, b) in enumerate(zip(c4, c5)):
        if V:
            break
        if a["seq_call"] is None or b["seq_call"] is None:
            continue
        ea = type(a["exc"]).__name__ if a["exc"] is not None else None
        eb = type(b["exc"]).__name__ if b["exc"] is not None else None
        st = a["step"]
        if ea == "LookupError" or eb == "LookupError":
            if ea != eb:
                V.append(viol("C19.entity_missing_in_one", {"call": st["call"], "target": st["target"], "at4": ea, "at5": eb}))
            continue
        if ea is not None or eb is not None:
            probes["c19.reject_compared"] = 1
        if ea != eb:
            V.append(viol("C19.accept_reject_differs", {"call": st["call"], "target": st["target"], "args": st["args"], "at4": ea, "at5": eb}, call=st["call"]))
            break
        if ea is not None:
            continue
        probes["c19.api_call_compared"] = 1
        fa, fb = cmd_frames(f4, c4, i), cmd_frames(f5, c5, i)
        ma = [_abstract_cmd(4, dict(f["reading"], _target=st["target"][1] if len(st["target"]) > 1 else None)) for f in fa]
        mb = [_abstract_cmd(5, f["reading"]) for f in fb]
        if ma != mb:
            V.append(viol("C19.meaning_differs", {"call": st["call"], "target": st["target"], "args": st["args"], "at4": repr(ma)[:300], "at5": repr(mb)[:300]}, call=st["call"]))
            break
    n_calls = len(c5)
    n_steps = sum(1 for s in sc["s5"]["timeline"] if s["op"].startswith("console."))
    res5 = common.result(w5, V, nontrivial=n_calls >= 2 and n_steps >= 2, probes=probes, evals=max(1, len(w5.snapshots) + n_calls))
    res5["digest"] = hashlib.sha256((w4.trace.digest() + w5.trace.digest()).encode()).hexdigest()
    res5["sim_seconds"] += w4.loop._vtime
    res5["steps"] += w4.loop.steps
    return res5


LEVEL_TEXT = (
    "Twin-run seeded search: equivalent installations and histories are compiled to both protocol generations and driven "
    "through the two real client implementations; getters, accept/reject decisions and the reference-decoded meaning of each "
    "accepted command are compared pairwise with the documented differences masked explicitly. Sampled evidence."
)
LEVEL_NOTE = "Trusts the two reference consoles and decoders (ref/), and the mask list stated in the assumptions."
TECHNIQUE = "deterministic twin simulation (AT4 and AT5 client each against its reference console, same abstract history), differential comparison of getters and reference-decoded commands"
