"""C12 - Subscribers hear about every change, and only about changes."""

from __future__ import annotations

from harness import gen as G
from harness.world import World
from ref import model as refmodel

from . import common, history
from .common import viol

ID = "C12"
TITLE = "Subscribers hear about every change, and only about changes"
LEVEL = "exploration"
RULE = (
    "seeded histories against an initialised AirTouch4/5 with a generated subscriber population (AirTouch, AC general, AC "
    "state-only, zone; twins subscribed twice; any subset raising; some yielding) and subscribe / unsubscribe steps interleaved "
    "with 1..40 console frames (changed, byte-identical repeats, changes confined to unexposed bits, error-text, version, "
    "unknown entities); fan-out task order drawn by the scheduler. The invocation log per frame is compared with the reference "
    "diff of exposed attributes. non-trivial = at least one subscriber and three frames; distinct = trace shape"
)
COMPONENTS = common.COMPONENTS_API
ASSUMPTIONS = [
    "a call is REQUIRED when an exposed attribute of the entity has no admissible value in common before and after the frame; FORBIDDEN when every record of the frame is byte-identical to the entity's previous report, after unsubscribe, with a foreign identifier, and for AC state-only subscribers on zone-only frames; everything else MAY notify",
    "how many times a required call is made for one frame is not constrained (a zone change reaches the AC's subscribers once per zone)",
]
PROBES = ["c12.observed_change", "c12.awaiting_subscriber_finished", "c12.unsubscribe_during_held_up_update", "c12.change_inside_callback", "c12.identical_repeat", "c12.required_call", "c12.unsubscribed", "c12.raising", "c12.twin", "c12.state_only_zone_frame", "c12.unexposed_change", "c12.version"]


def budget(tier: str) -> int:
    return 5000 if tier == "quick" else 400_000


def generate(rng, index: int, tier: str) -> dict:
    gen = rng.choice([4, 5])
    inst = G.installation(rng, gen, allow_zero_zones=False, max_zones=8)
    knobs = G.knobs(rng)
    knobs["latency"] = rng.choice([0.0, G.TICK, 2.0**-7])
    knobs["chunk_gap"] = 0.0
    n = rng.choice([3, 5, 10, 20, 40])
    tl = [{"at": 0.0, "op": "user.init"}]
    subs = []
    t_sub = 5.5
    for a in inst["acs"]:
        ac = a["ac"]
        if rng.random() < 0.8:
            subs.append({"name": f"ac{ac}g", "target": ["ac", ac], "method": "subscribe"})
            if rng.random() < 0.5:
                subs.append({"name": f"ac{ac}g2", "target": ["ac", ac], "method": "subscribe"})
                subs.append({"name": f"ac{ac}g2", "target": ["ac", ac], "method": "subscribe"})
        if rng.random() < 0.7:
            subs.append({"name": f"ac{ac}s", "target": ["ac", ac], "method": "subscribe_ac_state"})
        if rng.random() < 0.25:
            subs.append({"name": f"ac{ac}R", "target": ["ac", ac], "method": rng.choice(["subscribe", "subscribe_ac_state"]), "raises": True})
        if rng.random() < 0.3:
            # one callable holding both roles on the same air-conditioner (either order); giving up one role later must not
            # cost it the other
            both = [{"name": f"ac{ac}B", "target": ["ac", ac], "method": "subscribe"}, {"name": f"ac{ac}B", "target": ["ac", ac], "method": "subscribe_ac_state"}]
            subs += both if rng.random() < 0.5 else both[::-1]
    for z in inst["zones"]:
        if rng.random() < 0.6:
            subs.append({"name": f"z{z['zone']}", "target": ["zone", z["zone"]], "method": "subscribe", "sub_yields": rng.choice([0, 0, 1])})
        if rng.random() < 0.2:
            subs.append({"name": f"z{z['zone']}R", "target": ["zone", z["zone"]], "method": "subscribe", "raises": True})
    if rng.random() < 0.35:
        # subscription changes made from inside a callback, while a notification round is in progress: a one-shot
        # subscriber removes itself, another one adds a new subscriber to the same entity
        for _ in range(rng.choice([1, 1, 2, 3])):
            tg = rng.choice([["zone", z["zone"]] for z in inst["zones"]] + [["ac", a["ac"]] for a in inst["acs"]] + [["at"]])
            base = {"zone": "z%d", "ac": "ac%d", "at": "at"}[tg[0]] % tuple(tg[1:])
            if any(x["name"] in (base + "O", base + "P") for x in subs):
                continue
            if rng.random() < 0.6:
                subs.append({"name": base + "O", "target": tg, "method": "subscribe", "sub_yields": rng.choice([0, 0, 1]),
                             "then": [{"name": base + "O", "target": tg, "method": "unsubscribe"}]})
            else:
                subs.append({"name": base + "P", "target": tg, "method": "subscribe",
                             "then": [{"name": base + "N", "target": tg, "method": "subscribe"}]})
    late_resub = []
    if rng.random() < 0.25:
        # a zone subscriber that, after a few awaits of its own, unsubscribes the general subscriber of the owning
        # air-conditioner (while that frame is still being processed); the air-conditioner's subscriber comes back later
        try:
            owners = refmodel.Model(gen, inst, common.META).ac_zones
        except Exception:  # noqa: BLE001
            owners = {}
        cands = [(ac, z) for ac, zs in sorted(owners.items()) for z in sorted(zs) if any(x["name"] == f"ac{ac}g" for x in subs)]
        if cands:
            ac, z = rng.choice(cands)
            if not any(x["name"] == f"z{z}K" for x in subs):
                subs.append({"name": f"z{z}K", "target": ["zone", z], "method": "subscribe", "sub_yields": rng.choice([1, 3, 3]), "then_late": True,
                             "then": [{"name": f"ac{ac}g", "target": ["ac", ac], "method": "unsubscribe"}]})
                late_resub.append({"name": f"ac{ac}g", "target": ["ac", ac], "method": "subscribe"})
    if rng.random() < 0.8:
        subs.append({"name": "at", "target": ["at"], "method": "subscribe"})
    if rng.random() < 0.2:
        subs.append({"name": "atR", "target": ["at"], "method": "subscribe", "raises": True})
    for s in subs:
        tl.append(dict(s, at=t_sub, op="user.subscribe"))
    steps = history.console_steps(rng, gen, inst, n, 6.0, 0.5,
                                  kinds=["ac", "ac", "zone", "zone", "timer", "repeat", "repeat", "errtext", "version", "unknown_entity", "unexposed", "multi"])
    tl += steps
    for r in late_resub:
        tl.append(dict(r, at=6.0 + 0.5 * rng.randrange(max(1, n // 2), n + 1) + 0.25, op="user.subscribe"))
    # unsubscribe / resubscribe in the gaps
    names = sorted({s["name"] for s in subs})
    for _ in range(rng.choice([0, 1, 2, 4])):
        if not names:
            break
        nm = rng.choice(names)
        if any(x.endswith("B") for x in names) and rng.random() < 0.5:
            nm = rng.choice([x for x in names if x.endswith("B")])
        s0 = rng.choice([s for s in subs if s["name"] == nm])
        un = {"subscribe": "unsubscribe", "subscribe_ac_state": "unsubscribe_ac_state"}[s0["method"]]
        t = 6.0 + 0.5 * rng.randrange(n) + 0.25
        tl.append({"at": t, "op": "user.subscribe", "name": nm, "target": s0["target"], "method": un})
        if rng.random() < 0.4:
            tl.append({"at": t + 0.5 * rng.randint(1, 3), "op": "user.subscribe", "name": nm, "target": s0["target"], "method": s0["method"]})
    if rng.random() < 0.3:
        # an update whose handling has to wait: the AC reports an error code (the client asks for the description before it
        # notifies) while the peer's window is closed; a subscriber of that AC unsubscribes while the request is held up
        for _ in range(rng.choice([1, 2])):
            ac_subs = [x for x in subs if x["target"][0] == "ac" and not x.get("then")]
            if not ac_subs:
                break
            victim = rng.choice(ac_subs)
            ac = victim["target"][1]
            b = 6.0 + 0.5 * rng.randrange(n) + 0.3125
            un = {"subscribe": "unsubscribe", "subscribe_ac_state": "unsubscribe_ac_state"}[victim["method"]]
            tl.append({"at": b, "op": "net.stall", "on": True})
            tl.append({"at": b + 2.0**-6, "op": "console.set", "entity": ["ac", ac], "fields": {"error": rng.choice([3, 0x22, 0x1234]), "setpoint": G.ac_state(rng, gen)["setpoint"]}, "only": True})
            tl.append({"at": b + 2.0**-5, "op": "user.subscribe", "name": victim["name"], "target": victim["target"], "method": un, "during_stall": True})
            if rng.random() < 0.5:
                tl.append({"at": b + 2.0**-5, "op": "user.subscribe", "name": f"ac{ac}late", "target": ["ac", ac], "method": "subscribe"})
            tl.append({"at": b + 0.125, "op": "net.stall", "on": False})
    if rng.random() < 0.2 and not any(st["op"] == "net.stall" for st in tl):
        # a console that takes its time to answer: the description of an error arrives well after the status frame that made the
        # client ask for it (in another interval between two looks at the object model)
        tl.append({"at": 5.75, "op": "console.script", "kind": "error_info_request", "actions": [["late", 0.625]] * 60})
    # what the object model shows between the console's frames (for the rule "an exposed attribute changed => its subscribers
    # were told", which needs no reference model at all)
    for k in range(-1, n + 1):
        tl.append({"at": 6.0 + 0.5 * k + 0.46875, "op": "user.snapshot", "label": "obs"})
    tl.sort(key=lambda s: s["at"])
    return {"gen": gen, "mode": "api", "installation": inst, "knobs": knobs, "timeline": tl, "end": 6.0 + 0.5 * n + 1.0}


def _disjoint(a: set, b: set) -> bool:
    for x in a:
        for y in b:
            if refmodel._num_eq(x, y):
                return False
    return True


def _changed(before: dict, after: dict, skip=()) -> bool:
    for attr, adm in after.items():
        if attr in skip:
            continue
        if attr in before and _disjoint(before[attr], adm):
            return True
    return False


def execute(sc: dict) -> dict:
    gen = sc["gen"]
    w = World(sc).run()
    V = []
    probes = {}
    inst = sc["installation"]
    init = next((c for c in w.calls if c["op"] == "user.init"), None)
    if init is None or init["result"] is not True:
        return common.result(w, V, nontrivial=False)
    wire = common.wire(gen)
    m = refmodel.Model(gen, inst, common.META)
    owner = {}
    for ac, zs in m.ac_zones.items():
        for z in zs:
            owner[z] = ac
    events = w.trace.events
    seq_init = init["seq_ret"]
    # subscription state over time
    active: dict[str, set] = {}
    sub_target: dict[str, tuple] = {}
    last_rec: dict[tuple, object] = {}
    frames = [x for x in w.console.tx]
    fi = 0
    # walk the log
    i = 0
    n_ev = len(events)
    tx_by_seq = {x["seq"]: x for x in frames}
    window = None  # dict describing the current frame window
    windows = []
    calls_outside = []
    # intervals in which the client's writes are held by flow control: the processing of a frame that makes the client write
    # (error description request) only finishes when the window re-opens, so everything up to that instant is one window
    stalls = []
    on_at = None
    for st in sorted(sc["timeline"], key=lambda x: x["at"]):
        if st["op"] == "net.stall":
            if st.get("on", True):
                on_at = st["at"]
            elif on_at is not None:
                stalls.append((on_at, st["at"]))
                on_at = None
    for (seq, t, kind, f) in events:
        if kind == "user.subscribe":
            nm, meth, tgt = f["k"], f["m"], tuple(f["target"])
            sub_target[nm] = tgt
            if not f.get("inside") and window is not None:
                # changed between the arrival of a frame and the end of its processing (the notification can be held up by a
                # write the client makes first): what is required of this subscriber for that frame is open - but once an
                # unsubscribe has returned, no call may follow
                window["volatile"].add(nm)
                if meth in ("subscribe", "subscribe_ac_state"):
                    window["active"].setdefault(nm, set()).add((tgt, "general" if meth == "subscribe" else "state"))
            if f.get("inside"):
                # changed while a notification round was in progress: whether the subscriber concerned takes part in the rest
                # of this round is not defined; everybody else's calls still are
                probes["c12.change_inside_callback"] = 1
                if window is not None:
                    window["volatile"].add(nm)
                    window["inside_changed"].add(nm)
                    window["active"].setdefault(nm, set()).add((tgt, "general"))
            st = active.setdefault(nm, set())
            if meth == "subscribe":
                st.add((tgt, "general"))
            elif meth == "subscribe_ac_state":
                st.add((tgt, "state"))
            elif meth == "unsubscribe":
                st.discard((tgt, "general"))
                probes["c12.unsubscribed"] = 1
            elif meth == "unsubscribe_ac_state":
                st.discard((tgt, "state"))
                probes["c12.unsubscribed"] = 1
        elif kind == "console.tx":
            x = tx_by_seq.get(seq)
            frs, verdict, _ = wire.parse_stream(x["raw"])
            readings = [wire.read(fr) for fr in frs] if verdict == "clean" else []
            before = m.expected() if seq > seq_init else None
            for r in readings:
                m.feed(r)
            if seq <= seq_init:
                for r in readings:
                    _remember(r, last_rec)
                continue
            after = m.expected()
            held = window is not None and any(a <= window["t"] <= b and t <= b + 1e-9 for (a, b) in stalls)
            if window is not None and (window["t"] == t or held):
                # frames of one instant form one window: the client works through them (and through the records of one
                # frame) in order, but an answer it provoked half-way (error text request) can reach its buffer before the
                # remaining records are processed, so a notification cannot be attributed to a single frame by position
                window["readings"] = window["readings"] + readings
                window["after"] = after
                window["identical"] = window["identical"] and _all_identical(readings, last_rec)
                window["frames"] += 1
            else:
                window = {"seq": seq, "t": t, "readings": readings, "before": before, "after": after, "calls": [], "frames": 1, "volatile": set(), "inside_changed": set(), "dead_calls": [],
                          "active": {k: set(v) for k, v in active.items()}, "identical": _all_identical(readings, last_rec)}
                windows.append(window)
            for r in readings:
                _remember(r, last_rec)
        elif kind == "sub.call":
            if window is not None:
                window["calls"].append((f["k"], f["args"], seq))
                if not active.get(f["k"]) and f["k"] not in window["inside_changed"]:
                    window["dead_calls"].append(f["k"])
            elif seq > seq_init:
                calls_outside.append((f["k"], seq))
    if calls_outside:
        V.append(viol("C12.call_without_frame", {"calls": calls_outside[:5]}))
    # observed changes: between two looks at the object model with console frames in between, an entity whose exposed attributes
    # differ must have told every subscriber that was subscribed to it for the whole interval (no reference model involved)
    obs = [(snap["_seq"], t_, snap) for (t_, lbl, snap) in w.snapshots if lbl == "obs" and snap["_seq"] > seq_init]
    sub_events = [(e[0], e[3]["k"]) for e in events if e[2] == "user.subscribe"]
    call_events = [(e[0], e[3]["k"]) for e in events if e[2] == "sub.call"]
    cancelled_any = any(e[2] == "sub.cancelled" for e in events)
    roles: dict[str, set] = {}
    timeline_subs = sorted((e[0], e[3]["k"], e[3]["m"], tuple(e[3]["target"])) for e in events if e[2] == "user.subscribe")
    def roles_at(seq):
        st: dict[str, set] = {}
        for (sq, nm, meth, tgt) in timeline_subs:
            if sq > seq:
                break
            cur = st.setdefault(nm, set())
            if meth == "subscribe":
                cur.add((tgt, "general"))
            elif meth == "subscribe_ac_state":
                cur.add((tgt, "state"))
            elif meth == "unsubscribe":
                cur.discard((tgt, "general"))
            elif meth == "unsubscribe_ac_state":
                cur.discard((tgt, "state"))
        return st
    for (sa, ta, A), (sb, tb, B) in zip(obs, obs[1:]):
        if V or cancelled_any:
            break
        if any(a_ <= tb + 0.5 and ta - 0.5 <= b_ for (a_, b_) in stalls):
            continue  # notifications may be held up by flow control across these looks
        ch_ac = {ac for ac in A["acs"] if ac in B["acs"] and {k: v for k, v in A["acs"][ac].items() if k != "zones"} != {k: v for k, v in B["acs"][ac].items() if k != "zones"}}
        ch_zone = {z for z in A["zones"] if z in B["zones"] and A["zones"][z] != B["zones"][z]}
        if not ch_ac and not ch_zone:
            continue
        probes["c12.observed_change"] = 1
        st = roles_at(sa)
        moved = {nm for (sq, nm) in sub_events if sa < sq <= sb}
        called = {nm for (sq, nm) in call_events if sa < sq <= sb}
        for nm, rs in sorted(st.items()):
            if nm in moved or nm in called:
                continue
            for (tgt, role) in sorted(rs):
                why = None
                if tgt[0] == "ac" and tgt[1] in ch_ac:
                    why = "ac %d changed" % tgt[1]
                elif tgt[0] == "ac" and role == "general" and any(owner.get(z) == tgt[1] for z in ch_zone):
                    why = "a zone of ac %d changed" % tgt[1]
                elif tgt[0] == "zone" and tgt[1] in ch_zone:
                    why = "zone %d changed" % tgt[1]
                if why:
                    V.append(viol("C12.missed_notification", {"sub": nm, "why": why + " (observed in the object model)", "between": [ta, tb], "called": sorted(called)}, observed=True))
                    break
            if V:
                break
    # a subscriber that was called must be allowed to finish: being cancelled at an await of its own (because a sibling
    # raised, say) is "prevented from being called" in everything but name
    cancelled = [(e[1], e[3]["k"]) for e in events if e[2] == "sub.cancelled"]
    if any(e[2] == "sub.done" for e in events):
        probes["c12.awaiting_subscriber_finished"] = 1
    if cancelled and not V:
        raisers = sorted({e[3]["k"] for e in events if e[2] == "sub.call" and e[3]["k"].endswith("R")})
        V.append(viol("C12.subscriber_cancelled", {"sub": cancelled[0][1], "t": cancelled[0][0], "raising_subscribers_in_run": raisers[:6]}))
    ident = {"ac": lambda n: n, "zone": lambda n: n}
    for win in windows:
        if V:
            break
        before, after, calls = win["before"], win["after"], win["calls"]
        act = win["active"]
        called = {}
        for (nm, args, _s) in calls:
            called.setdefault(nm, []).append(args)
        if win["dead_calls"]:
            probes["c12.unsubscribed"] = 1
            V.append(viol("C12.called_after_unsubscribe", {"sub": win["dead_calls"][0], "t": win["t"], "why": "unsubscribe had returned before this call was made"}))
            break
        # forbidden: no active subscription; foreign identifier
        for nm, arglist in called.items():
            subs_of = act.get(nm, set())
            if nm.endswith("R"):
                probes["c12.raising"] = 1
            if not subs_of and nm not in win["volatile"]:
                V.append(viol("C12.called_after_unsubscribe", {"sub": nm, "t": win["t"]}))
                break
            tgt = sub_target[nm]
            want_arg = "AT-ID" if tgt[0] == "at" else tgt[1]
            for a in arglist:
                if len(a) != 1 or a[0] != want_arg:
                    V.append(viol("C12.wrong_identifier", {"sub": nm, "args": a, "want": want_arg}))
                    break
        if V:
            break
        kinds = {r["kind"] for r in win["readings"]}
        if win["identical"] and win["readings"]:
            probes["c12.identical_repeat"] = 1
            if calls:
                V.append(viol("C12.notified_on_identical_report", {"t": win["t"], "frame": sorted(kinds), "calls": [c[0] for c in calls][:6]}))
                break
        if kinds and kinds <= {"group_status", "zone_status"}:
            so = [nm for nm in called if any(mode == "state" for (_t, mode) in act.get(nm, ())) and not any(mode == "general" for (_t, mode) in act.get(nm, ()))]
            if any(mode == "state" for st in act.values() for (_t, mode) in st):
                probes["c12.state_only_zone_frame"] = 1
            if so:
                V.append(viol("C12.state_only_subscriber_got_zone_update", {"subs": so, "t": win["t"]}))
                break
        # required calls
        need = []  # (sub name, why)
        if _changed({k: v for k, v in before.items() if k not in ("acs", "zones")}, {k: v for k, v in after.items() if k not in ("acs", "zones")}):
            probes["c12.version"] = 1
            for nm, st in act.items():
                if any(tg[0] == "at" for (tg, _m) in st):
                    need.append((nm, "airtouch changed"))
        for ac, e in after["acs"].items():
            if _changed(before["acs"].get(ac, {}), e, skip=("zones",)):
                for nm, st in act.items():
                    if any(tg == ("ac", ac) for (tg, _m) in st):
                        need.append((nm, f"ac {ac} changed"))
        for z, e in after["zones"].items():
            if _changed(before["zones"].get(z, {}), e):
                for nm, st in act.items():
                    if any(tg == ("zone", z) for (tg, _m) in st):
                        need.append((nm, f"zone {z} changed"))
                    if z in owner and any(tg == ("ac", owner[z]) and mode == "general" for (tg, mode) in st):
                        need.append((nm, f"zone {z} of ac {owner[z]} changed"))
        for nm, why in need:
            probes["c12.required_call"] = 1
            if nm in win["volatile"]:
                continue
            if nm not in called:
                V.append(viol("C12.missed_notification", {"sub": nm, "why": why, "t": win["t"], "frame": sorted(kinds), "called": sorted(called)},
                              raising_present=any(x.endswith("R") for x in act if act[x])))
                break
    # twins: subscribing twice has no extra effect
    totals = {}
    for win in windows:
        for (nm, args, _s) in win["calls"]:
            totals[nm] = totals.get(nm, 0) + 1
    for nm in list(totals) + [k for k in active]:
        if nm.endswith("g2"):
            base = nm[:-1]
            if base in sub_target and not any(e[2] == "user.subscribe" and e[3]["k"] in (nm, base) and e[3]["m"].startswith("unsub") for e in events):
                probes["c12.twin"] = 1
                if totals.get(nm, 0) != totals.get(base, 0) and not V:
                    V.append(viol("C12.double_subscription_effect", {"once": totals.get(base, 0), "twice": totals.get(nm, 0), "sub": nm}))
    if any(st.get("during_stall") for st in sc["timeline"]):
        probes["c12.unsubscribe_during_held_up_update"] = 1
    if any(st.get("unexposed") for st in sc["timeline"]):
        probes["c12.unexposed_change"] = 1
    if w.final.get("exceptions"):
        V.append(viol("C12.exception", {"contexts": w.final["exceptions"][:2]}))
    n_frames = len(windows)
    return common.result(w, V, nontrivial=n_frames >= 3 and bool(active), probes=probes, evals=max(1, n_frames))


def _records(r: dict):
    k = r["kind"]
    if k == "ac_status":
        return [(("ac", a["ac"]), a) for a in r["acs"]]
    if k in ("group_status", "zone_status"):
        return [(("zone", z.get("group", z.get("zone"))), z) for z in r.get("groups", r.get("zones"))]
    if k == "timer_status":
        return [(("timer", t["ac"]), t) for t in r["timers"]]
    if k == "error_info":
        return [(("err", r["ac"]), r["text"])]
    if k == "version":
        return [(("version",), (r["update"], tuple(r["versions"])))]
    return [(("other", k), None)]


def _remember(r: dict, last: dict) -> None:
    for key, rec in _records(r):
        last[key] = rec


def _all_identical(readings, last) -> bool:
    if not readings:
        return False
    for r in readings:
        for key, rec in _records(r):
            if key[0] in ("other", "err"):
                # error text is also cleared by a status report without error code: a repeated
                # text frame may legitimately change the exposed description
                return False
            if key not in last or last[key] != rec:
                return False
    return True


LEVEL_TEXT = (
    "Seeded search over status-frame histories with generated subscriber populations and subscribe/unsubscribe placements; the "
    "recorded invocations per frame are checked against required / forbidden sets derived from a reference model diff. Sampled evidence."
)
LEVEL_NOTE = "Trusts ref/model.py for 'exposed attribute changed'; soundness rules (required only when no admissible value is shared, forbidden only on byte-identical reports) are stated in the assumptions."
TECHNIQUE = "deterministic simulation with scheduler-drawn fan-out order; history check of subscriber invocations against a reference-model diff per delivered frame"
